//! Shared by C12 and C13: explicit delta specifications, the fold a node performs on a
//! `RecoveredState` (`apply_recovered_state`: checkpoint values first, then every delta merged
//! in the order recovery returns them), comparison projections, and the per-image recovery
//! oracle (recover succeeds; every object the manifest names exists and passes open+validate).
#![allow(dead_code)]

use crate::store::{run_now, Image, TraceObjectStore};
use redis_sim::redis::SDS;
use redis_sim::replication::lattice::{LamportClock, LwwRegister, ReplicaId};
use redis_sim::replication::state::{CrdtValue, ReplicatedValue, ReplicationDelta};
use redis_sim::streaming::{CheckpointReader, Manifest, RecoveryManager, SegmentReader};
use serde::{Deserialize, Serialize};
use serde_json::Value as J;
use std::collections::{BTreeMap, HashMap};

pub const PREFIX: &str = "p";
pub const REPLICA: u64 = 1;

/// What one update does. The CRDT type of a key is fixed by its name (`s<n>` = LWW string,
/// `h<n>` = hash): mixing types under one key makes `ReplicatedValue::merge` order-dependent
/// (type conflicts are resolved last-writer-wins on the *merged* outer stamp), which is C07's
/// business, not C12/C13's.
#[derive(Clone, Debug, PartialEq, Eq, Hash, Serialize, Deserialize)]
pub enum Action {
    /// string value `v<val>` followed by `pad` filler bytes
    Set { val: u8, pad: u16 },
    /// string value with an expiry
    SetEx { val: u8, expiry: u32 },
    /// LWW tombstone
    Del,
    /// hash with one field
    HSet { field: u8, val: u8 },
    /// hash with two fields (a state-based delta carries the whole value)
    HSet2 { f1: u8, v1: u8, f2: u8, v2: u8 },
    /// hash with one tombstoned field
    HDel { field: u8 },
    /// hash field plus an expiry on the key
    HSetEx { field: u8, val: u8, expiry: u32 },
}

#[derive(Clone, Debug, PartialEq, Eq, Hash, Serialize, Deserialize)]
pub struct DeltaSpec {
    pub key: u8,
    pub action: Action,
    /// 1..=3
    pub replica: u8,
    /// Lamport time of the update
    pub time: u64,
}

impl DeltaSpec {
    pub fn is_hash(&self) -> bool {
        matches!(
            self.action,
            Action::HSet { .. } | Action::HSet2 { .. } | Action::HDel { .. } | Action::HSetEx { .. }
        )
    }
    pub fn has_expiry(&self) -> bool {
        matches!(self.action, Action::SetEx { .. } | Action::HSetEx { .. })
    }
    pub fn key_name(&self) -> String {
        if self.is_hash() {
            format!("h{}", self.key % 2)
        } else {
            format!("s{}", self.key % 4)
        }
    }
    pub fn is_tombstone(&self) -> bool {
        matches!(self.action, Action::Del)
    }

    pub fn build(&self) -> ReplicationDelta {
        let rid = ReplicaId::new(self.replica.max(1) as u64);
        let clock = LamportClock {
            time: self.time,
            replica_id: rid,
        };
        let reg = |v: u8| LwwRegister::with_value(SDS::from_str(&format!("v{}", v)), clock);
        let tomb = || LwwRegister::<SDS> {
            value: None,
            timestamp: clock,
            tombstone: true,
        };
        let hash = |fields: Vec<(u8, LwwRegister<SDS>)>| {
            let mut m: HashMap<String, LwwRegister<SDS>> = HashMap::new();
            for (f, r) in fields {
                m.insert(format!("f{}", f % 4), r);
            }
            let mut v = ReplicatedValue::with_crdt(CrdtValue::Hash(m), rid);
            v.timestamp = clock;
            v
        };
        let value = match &self.action {
            Action::Set { val, pad } => {
                let mut s = format!("v{}", val);
                for _ in 0..*pad {
                    s.push('x');
                }
                ReplicatedValue::with_value(SDS::from_str(&s), clock)
            }
            Action::SetEx { val, expiry } => {
                let mut v = ReplicatedValue::with_value(SDS::from_str(&format!("v{}", val)), clock);
                v.expiry_ms = Some(*expiry as u64);
                v
            }
            Action::Del => {
                let mut v = ReplicatedValue::new(rid);
                v.crdt = CrdtValue::Lww(tomb());
                v.timestamp = clock;
                v
            }
            Action::HSet { field, val } => hash(vec![(*field, reg(*val))]),
            Action::HSet2 { f1, v1, f2, v2 } => {
                if f1 % 4 == f2 % 4 {
                    hash(vec![(*f1, reg(*v1))])
                } else {
                    hash(vec![(*f1, reg(*v1)), (*f2, reg(*v2))])
                }
            }
            Action::HDel { field } => hash(vec![(*field, tomb())]),
            Action::HSetEx { field, val, expiry } => {
                let mut v = hash(vec![(*field, reg(*val))]);
                v.expiry_ms = Some(*expiry as u64);
                v
            }
        };
        ReplicationDelta::new(self.key_name(), value, rid)
    }
}

/// Make `(key, time, replica)` unique per key by bumping `time` (equal stamps with different
/// payloads make LWW merge order-dependent — outside every property here). With
/// `unique_time_per_key` the times themselves are made unique per key.
pub fn uniquify<'a>(specs: impl Iterator<Item = &'a mut DeltaSpec>, unique_time_per_key: bool) {
    let mut seen: std::collections::BTreeSet<(String, u64, u8)> = Default::default();
    for s in specs {
        loop {
            let k = (
                s.key_name(),
                s.time,
                if unique_time_per_key { 0 } else { s.replica },
            );
            if seen.insert(k) {
                break;
            }
            s.time += 1;
        }
    }
}

pub type State = BTreeMap<String, ReplicatedValue>;

/// What a node ends up with after `apply_recovered_state(checkpoint_state, deltas)`:
/// checkpoint values inserted, then `local.merge(&delta.value)` per delta, in order.
pub fn fold(checkpoint: Option<&HashMap<String, ReplicatedValue>>, deltas: &[ReplicationDelta]) -> State {
    let mut m = State::new();
    if let Some(cp) = checkpoint {
        for (k, v) in cp {
            m.insert(k.clone(), v.clone());
        }
    }
    fold_into(&mut m, deltas);
    m
}

pub fn fold_into(m: &mut State, deltas: &[ReplicationDelta]) {
    for d in deltas {
        let merged = match m.remove(&d.key) {
            Some(local) => local.merge(&d.value),
            None => d.value.clone(),
        };
        m.insert(d.key.clone(), merged);
    }
}

/// Peer view (vcore::proj) with the replica id of the *outer* stamp masked: `merge` keeps
/// `self`'s replica id there, so it depends on the order in which equal-content deltas are
/// folded (recovery order is a function of segment boundaries, which compaction changes by
/// design). Everything else a peer can observe is kept: payload incl. per-field stamps and
/// tombstones, vector clock, expiry, outer time, replication factor.
pub fn peer(v: &ReplicatedValue) -> J {
    let mut p = vcore::proj::peer_view(v);
    if let Some(ts) = p.get_mut("timestamp") {
        if let Some(o) = ts.as_object_mut() {
            o.insert("replica_id".into(), J::Null);
        }
    }
    p
}

pub fn client(v: Option<&ReplicatedValue>) -> J {
    match v {
        Some(v) => {
            let c = vcore::proj::client_view(v);
            // a key whose body is gone shows nothing to a client, whatever its expiry field says
            if c["body"]["type"] == "none" {
                serde_json::json!({"body": {"type": "none"}})
            } else {
                c
            }
        }
        None => serde_json::json!({"body": {"type": "none"}}),
    }
}

pub fn peer_opt(v: Option<&ReplicatedValue>) -> J {
    match v {
        Some(v) => peer(v),
        None => J::Null,
    }
}

/// `state ⊇ delta` in the merge order: merging the update changes nothing a peer can observe.
pub fn contains(state: &State, d: &ReplicationDelta) -> bool {
    match state.get(&d.key) {
        None => false,
        Some(v) => peer(&v.merge(&d.value)) == peer(v),
    }
}

pub struct Recovered {
    pub manifest: Manifest,
    pub checkpoint: Option<HashMap<String, ReplicatedValue>>,
    pub state: State,
    pub deltas: usize,
}

#[derive(Debug, Clone)]
pub enum ImageFault {
    /// `RecoveryManager::recover()` returned an error
    RecoverFailed(String),
    /// the manifest names an object that is missing or does not pass open+validate
    Dangling { key: String, why: String },
}

impl std::fmt::Display for ImageFault {
    fn fmt(&self, f: &mut std::fmt::Formatter<'_>) -> std::fmt::Result {
        match self {
            ImageFault::RecoverFailed(e) => write!(f, "RecoveryManager::recover() failed: {}", e),
            ImageFault::Dangling { key, why } => {
                write!(f, "the manifest names object '{}' which {}", key, why)
            }
        }
    }
}

/// Oracle steps 1 and 2 on one store image.
pub fn recover_image(img: &Image) -> Result<Recovered, ImageFault> {
    let st = TraceObjectStore::from_image(img.clone());
    let rm = RecoveryManager::new(st, PREFIX, REPLICA);
    let rec = vcore::runner::catch(|| run_now(rm.recover()));
    let rec = match rec {
        Err(p) => return Err(ImageFault::RecoverFailed(p)),
        Ok(Err(e)) => {
            // say which object, if the manifest is readable
            if let Some(m) = read_manifest(img) {
                if let Err(d) = check_manifest_objects(img, &m) {
                    return Err(d);
                }
            }
            return Err(ImageFault::RecoverFailed(e.to_string()));
        }
        Ok(Ok(r)) => r,
    };
    check_manifest_objects(img, &rec.manifest)?;
    let state = fold(rec.checkpoint_state.as_ref(), &rec.deltas);
    Ok(Recovered {
        manifest: rec.manifest,
        checkpoint: rec.checkpoint_state,
        state,
        deltas: rec.deltas.len(),
    })
}

pub fn read_manifest(img: &Image) -> Option<Manifest> {
    let b = img.get(&format!("{}/manifest.json", PREFIX))?;
    serde_json::from_slice(b).ok()
}

pub fn check_manifest_objects(img: &Image, m: &Manifest) -> Result<(), ImageFault> {
    for s in &m.segments {
        let Some(data) = img.get(&s.key) else {
            return Err(ImageFault::Dangling {
                key: s.key.clone(),
                why: "does not exist".into(),
            });
        };
        let r = SegmentReader::open(data).and_then(|r| {
            r.validate()?;
            r.read_all()
        });
        if let Err(e) = r {
            return Err(ImageFault::Dangling {
                key: s.key.clone(),
                why: format!("does not pass open+validate+read ({} of {} recorded bytes): {}", data.len(), s.size_bytes, e),
            });
        }
    }
    if let Some(c) = &m.checkpoint {
        let Some(data) = img.get(&c.key) else {
            return Err(ImageFault::Dangling {
                key: c.key.clone(),
                why: "does not exist".into(),
            });
        };
        let r = CheckpointReader::open(data).and_then(|r| {
            r.validate()?;
            r.load()
        });
        if let Err(e) = r {
            return Err(ImageFault::Dangling {
                key: c.key.clone(),
                why: format!("does not pass open+validate+load: {}", e),
            });
        }
    }
    Ok(())
}

pub fn show_delta(d: &ReplicationDelta) -> String {
    let mut c = client(Some(&d.value)).to_string();
    if c.len() > 120 {
        c = format!("{}…[{} chars]", c.chars().take(80).collect::<String>(), c.len());
    }
    format!(
        "{}@({},r{}) {}",
        d.key,
        d.value.timestamp.time,
        d.value.timestamp.replica_id.0,
        c
    )
}

/// The code under test reports unreadable segments with `eprintln!` (compaction.rs); under
/// fault enumeration that is tens of thousands of lines. The check therefore runs itself as a
/// child process and forwards the child's stderr minus exactly those diagnostics; stdout
/// (verdict lines) and the exit status pass through untouched.
pub fn run_with_filtered_stderr(tag: &str) {
    use std::io::{BufRead, BufReader};
    use std::os::unix::process::CommandExt;
    use std::process::{Command, Stdio};
    if std::env::var_os("VERIF_FILTER_CHILD").is_some() {
        return;
    }
    const NOISE: &[&str] = &[
        "Segment ",
        "Failed to open segment ",
        "Invalid segment ",
        "Failed to read delta",
    ];
    let exe = match std::env::current_exe() {
        Ok(e) => e,
        Err(_) => return,
    };
    let mut cmd = Command::new(exe);
    cmd.args(std::env::args_os().skip(1))
        .env("VERIF_FILTER_CHILD", "1")
        .stderr(Stdio::piped());
    unsafe {
        cmd.pre_exec(|| {
            // die with the parent (the dispatcher's watchdog kills the parent only)
            libc::prctl(libc::PR_SET_PDEATHSIG, libc::SIGKILL);
            Ok(())
        });
    }
    let mut child = match cmd.spawn() {
        Ok(c) => c,
        Err(_) => return, // run unfiltered
    };
    let mut suppressed = 0u64;
    if let Some(err) = child.stderr.take() {
        for line in BufReader::new(err).split(b'\n').flatten() {
            let text = String::from_utf8_lossy(&line);
            if NOISE.iter().any(|p| text.starts_with(p)) {
                suppressed += 1;
            } else {
                eprintln!("{}", text);
            }
        }
    }
    let status = child.wait();
    if suppressed > 0 {
        eprintln!(
            "[{}] {} diagnostic lines printed by the code under test (unreadable/missing segments during compaction) not shown",
            tag, suppressed
        );
    }
    std::process::exit(match status {
        Ok(s) => s.code().unwrap_or(2),
        Err(_) => 2,
    });
}
