//! C12 over the store the server actually uses: `LocalFsObjectStore`.
//!
//! fs_conformance  generated op sequences (put with shorter / longer / equal overwrites, get,
//!                 exists, head, rename over existing, delete, list with prefixes) executed on a
//!                 `LocalFsObjectStore` (fresh directory under <VERIF_ROOT>/.work/c12-fs/, removed
//!                 per case) and on `InMemoryObjectStore`: identical results step by step.
//! fs_workloads    push / flush / compact / reopen workloads on `StreamingPersistence` +
//!                 `Compactor` over `LocalFsObjectStore` behind a thin fault layer (`FaultFs`):
//!                 the fault-free run, then every call failing once (without effect, for puts
//!                 after half the object, for puts / renames / deletes also AFTER the effect).
//!                 After every op the directory is a crash position: `RecoveryManager::recover()`
//!                 on a plain LocalFs store must succeed, every object the manifest names must
//!                 pass open+validate+read, every confirmed update must be recovered.

use crate::model::*;
use crate::store::{Fault, OpKind};
use crate::{comp_config, prepare, wb_config, Op, Workload};
use redis_sim::replication::state::ReplicationDelta;
use redis_sim::streaming::{
    Compactor, InMemoryObjectStore, ListResult, LocalFsObjectStore, ManifestManager, ObjectMeta,
    ObjectStore, RecoveryManager, SegmentReader, SimulatedClock, StreamingPersistence,
};
use serde::{Deserialize, Serialize};
use std::collections::BTreeMap;
use std::future::Future;
use std::io::{Error as IoError, Result as IoResult};
use std::path::PathBuf;
use std::pin::Pin;
use std::sync::atomic::{AtomicU64, Ordering};
use std::sync::{Arc, Mutex};
use vcore::time::VerifTime;
use vcore::CaseCtx;

// ---------------------------------------------------------------------------------------
// scratch directories (never /tmp; removed per case, also on failure)
// ---------------------------------------------------------------------------------------

static DIR_SEQ: AtomicU64 = AtomicU64::new(0);

pub struct Scratch(pub PathBuf);

impl Scratch {
    pub fn new() -> Result<Scratch, String> {
        let n = DIR_SEQ.fetch_add(1, Ordering::SeqCst);
        let p = vcore::runner::root_path(".work/c12-fs").join(format!("{}-{}", std::process::id(), n));
        std::fs::create_dir_all(&p).map_err(|e| format!("cannot create {:?}: {}", p, e))?;
        Ok(Scratch(p))
    }
}

impl Drop for Scratch {
    fn drop(&mut self) {
        let _ = std::fs::remove_dir_all(&self.0);
    }
}

/// Remove whatever an aborted earlier run of THIS process family left behind.
pub fn cleanup_root() {
    let root = vcore::runner::root_path(".work/c12-fs");
    let _ = std::fs::remove_dir(&root); // only if empty
}

// ---------------------------------------------------------------------------------------
// fs_conformance
// ---------------------------------------------------------------------------------------

#[derive(Clone, Debug, Serialize, Deserialize)]
pub enum FsOp {
    Put { key: u8, len: u16, fill: u8 },
    Get { key: u8 },
    Exists { key: u8 },
    Head { key: u8 },
    Rename { from: u8, to: u8 },
    Delete { key: u8 },
    List { prefix: u8 },
}

#[derive(Clone, Debug, Serialize, Deserialize)]
pub struct FsCase {
    pub ops: Vec<FsOp>,
}

/// No key is a path prefix of another one (a file cannot also be a directory).
const KEYS: &[&str] = &[
    "p/manifest.json",
    "p/manifest.json.tmp",
    "p/segments/segment-00000000.seg",
    "p/segments/segment-00000001.seg",
    "p/segments/segment-00000010.seg",
    "p/checkpoints/chk-0000000000000001.chk",
    "q/other.bin",
    "top-level",
];

const PREFIXES: &[&str] = &[
    "",
    "p/",
    "p/segments/",
    "p/segments/segment-0000000",
    "p/manifest.json",
    "p/checkpoints/",
    "q/",
    "absent/",
    "top",
];

fn key(i: u8) -> &'static str {
    KEYS[(i as usize * KEYS.len()) >> 8]
}

fn payload(len: u16, fill: u8) -> Vec<u8> {
    (0..len as usize).map(|i| fill.wrapping_add((i % 251) as u8)).collect()
}

fn kind(e: &IoError) -> String {
    format!("Err({:?})", e.kind())
}

async fn apply<S: ObjectStore>(s: &S, op: &FsOp) -> String {
    match op {
        FsOp::Put { key: k, len, fill } => match s.put(key(*k), &payload(*len, *fill)).await {
            Ok(()) => "Ok".into(),
            Err(e) => kind(&e),
        },
        FsOp::Get { key: k } => match s.get(key(*k)).await {
            Ok(d) => format!("Ok({} bytes, fnv {:016x})", d.len(), vcore::fnv64(&d)),
            Err(e) => kind(&e),
        },
        FsOp::Exists { key: k } => match s.exists(key(*k)).await {
            Ok(b) => format!("Ok({})", b),
            Err(e) => kind(&e),
        },
        FsOp::Head { key: k } => match s.head(key(*k)).await {
            Ok(m) => format!("Ok(key {}, {} bytes)", m.key, m.size_bytes),
            Err(e) => kind(&e),
        },
        FsOp::Rename { from, to } => match s.rename(key(*from), key(*to)).await {
            Ok(()) => "Ok".into(),
            Err(e) => kind(&e),
        },
        FsOp::Delete { key: k } => match s.delete(key(*k)).await {
            Ok(()) => "Ok".into(),
            Err(e) => kind(&e),
        },
        FsOp::List { prefix } => {
            let p = PREFIXES[(*prefix as usize * PREFIXES.len()) >> 8];
            match s.list(p, None).await {
                Ok(r) => format!(
                    "Ok({:?})",
                    r.objects.iter().map(|o| (o.key.clone(), o.size_bytes)).collect::<Vec<_>>()
                ),
                Err(e) => kind(&e),
            }
        }
    }
}

fn show_op(op: &FsOp) -> String {
    match op {
        FsOp::Put { key: k, len, fill } => format!("put {} ({} bytes, pattern {})", key(*k), len, fill),
        FsOp::Get { key: k } => format!("get {}", key(*k)),
        FsOp::Exists { key: k } => format!("exists {}", key(*k)),
        FsOp::Head { key: k } => format!("head {}", key(*k)),
        FsOp::Rename { from, to } => format!("rename {} -> {}", key(*from), key(*to)),
        FsOp::Delete { key: k } => format!("delete {}", key(*k)),
        FsOp::List { prefix } => format!("list {:?}", PREFIXES[(*prefix as usize * PREFIXES.len()) >> 8]),
    }
}

pub fn check_conformance(case: &FsCase, ctx: &mut CaseCtx<'_>) -> Result<(), String> {
    let dir = Scratch::new()?;
    let fs = LocalFsObjectStore::new(dir.0.clone());
    let mem = InMemoryObjectStore::new();
    let mut sizes: BTreeMap<&'static str, u16> = BTreeMap::new();
    let mut shrinking = false;
    let mut rename_over = false;
    let r = vcore::block_on(async {
        for (i, op) in case.ops.iter().enumerate() {
            match op {
                FsOp::Put { key: k, len, .. } => {
                    if let Some(old) = sizes.insert(key(*k), *len) {
                        if *len < old {
                            shrinking = true;
                        }
                    }
                }
                FsOp::Rename { from, to } => {
                    if let Some(v) = sizes.remove(key(*from)) {
                        if sizes.insert(key(*to), v).is_some() {
                            rename_over = true;
                        }
                    }
                }
                FsOp::Delete { key: k } => {
                    sizes.remove(key(*k));
                }
                _ => {}
            }
            let a = apply(&fs, op).await;
            let b = apply(&mem, op).await;
            if a != b {
                return Err(format!(
                    "step {} `{}`: LocalFsObjectStore answers {} but InMemoryObjectStore answers {}\n    ops so far:\n{}",
                    i,
                    show_op(op),
                    a,
                    b,
                    case.ops[..=i].iter().map(|o| format!("      {}\n", show_op(o))).collect::<String>()
                ));
            }
        }
        // final sweep: every key reads the same from both
        for k in KEYS {
            let a = fs.get(k).await.map_err(|e| e.kind());
            let b = mem.get(k).await.map_err(|e| e.kind());
            if a != b {
                return Err(format!(
                    "after the sequence, get {} differs: LocalFs {:?} bytes vs InMemory {:?} bytes",
                    k,
                    a.map(|d| d.len()),
                    b.map(|d| d.len())
                ));
            }
        }
        Ok(())
    });
    if shrinking {
        ctx.label("fs:overwrite_with_shorter");
    }
    if rename_over {
        ctx.label("fs:rename_over_existing");
    }
    if shrinking || rename_over {
        ctx.nontrivial(&serde_json::to_string(case).unwrap_or_default());
    }
    r
}

// ---------------------------------------------------------------------------------------
// fault layer over LocalFsObjectStore
// ---------------------------------------------------------------------------------------

struct FState {
    calls: Vec<(OpKind, String, bool)>,
    faults: BTreeMap<usize, Fault>,
}

#[derive(Clone)]
pub struct FaultFs {
    inner: LocalFsObjectStore,
    st: Arc<Mutex<FState>>,
    /// index into `store::ERROR_KINDS`: the kind injected failures carry
    err_kind: u8,
}

impl FaultFs {
    pub fn new(dir: PathBuf, faults: &[(usize, Fault)], err_kind: u8) -> Self {
        FaultFs {
            err_kind,
            inner: LocalFsObjectStore::new(dir),
            st: Arc::new(Mutex::new(FState {
                calls: Vec::new(),
                faults: faults.iter().cloned().collect(),
            })),
        }
    }
    fn begin(&self, op: OpKind, key: &str) -> (usize, Option<Fault>) {
        let mut g = self.st.lock().unwrap_or_else(|p| p.into_inner());
        let idx = g.calls.len();
        g.calls.push((op, key.to_string(), true));
        let f = g.faults.get(&idx).cloned();
        (idx, f)
    }
    fn failed(&self, idx: usize) {
        let mut g = self.st.lock().unwrap_or_else(|p| p.into_inner());
        g.calls[idx].2 = false;
    }
    pub fn calls(&self) -> Vec<(OpKind, String, bool)> {
        self.st.lock().unwrap_or_else(|p| p.into_inner()).calls.clone()
    }
    fn err(&self, idx: usize, what: &str) -> IoError {
        self.failed(idx);
        let (kind, name) = crate::store::error_kind(self.err_kind);
        IoError::new(kind, format!("injected {} failure ({}) at call {}", what, name, idx))
    }
}

fn stops(f: Option<Fault>) -> bool {
    matches!(f, Some(Fault::Fail) | Some(Fault::PartialThenFail(_)) | Some(Fault::EffectThenFail))
}

impl ObjectStore for FaultFs {
    fn put<'a>(&'a self, key: &'a str, data: &'a [u8]) -> Pin<Box<dyn Future<Output = IoResult<()>> + Send + 'a>> {
        Box::pin(async move {
            let (idx, f) = self.begin(OpKind::Put, key);
            match f {
                Some(Fault::Fail) => Err(self.err(idx, "put")),
                Some(Fault::PartialThenFail(pm)) => {
                    let n = data.len() * pm.min(1000) as usize / 1000;
                    self.inner.put(key, &data[..n]).await?;
                    Err(self.err(idx, "put (after a partial write)"))
                }
                Some(Fault::EffectThenFail) => {
                    self.inner.put(key, data).await?;
                    Err(self.err(idx, "put (after the object was stored)"))
                }
                _ => self.inner.put(key, data).await,
            }
        })
    }
    fn get<'a>(&'a self, key: &'a str) -> Pin<Box<dyn Future<Output = IoResult<Vec<u8>>> + Send + 'a>> {
        Box::pin(async move {
            let (idx, f) = self.begin(OpKind::Get, key);
            if stops(f) {
                return Err(self.err(idx, "get"));
            }
            self.inner.get(key).await
        })
    }
    fn exists<'a>(&'a self, key: &'a str) -> Pin<Box<dyn Future<Output = IoResult<bool>> + Send + 'a>> {
        Box::pin(async move {
            let (idx, f) = self.begin(OpKind::Exists, key);
            if stops(f) {
                return Err(self.err(idx, "exists"));
            }
            self.inner.exists(key).await
        })
    }
    fn delete<'a>(&'a self, key: &'a str) -> Pin<Box<dyn Future<Output = IoResult<()>> + Send + 'a>> {
        Box::pin(async move {
            let (idx, f) = self.begin(OpKind::Delete, key);
            match f {
                Some(Fault::EffectThenFail) => {
                    self.inner.delete(key).await?;
                    Err(self.err(idx, "delete (after the object was removed)"))
                }
                f if stops(f) => Err(self.err(idx, "delete")),
                _ => self.inner.delete(key).await,
            }
        })
    }
    fn list<'a>(
        &'a self,
        prefix: &'a str,
        token: Option<&'a str>,
    ) -> Pin<Box<dyn Future<Output = IoResult<ListResult>> + Send + 'a>> {
        Box::pin(async move {
            let (idx, f) = self.begin(OpKind::List, prefix);
            if stops(f) {
                return Err(self.err(idx, "list"));
            }
            self.inner.list(prefix, token).await
        })
    }
    fn rename<'a>(&'a self, from: &'a str, to: &'a str) -> Pin<Box<dyn Future<Output = IoResult<()>> + Send + 'a>> {
        Box::pin(async move {
            let (idx, f) = self.begin(OpKind::Rename, from);
            match f {
                Some(Fault::EffectThenFail) => {
                    // copy landed, delete of the source failed
                    let d = self.inner.get(from).await?;
                    self.inner.put(to, &d).await?;
                    Err(self.err(idx, "rename (after the destination was written)"))
                }
                f if stops(f) => Err(self.err(idx, "rename")),
                _ => self.inner.rename(from, to).await,
            }
        })
    }
    fn head<'a>(&'a self, key: &'a str) -> Pin<Box<dyn Future<Output = IoResult<ObjectMeta>> + Send + 'a>> {
        Box::pin(async move {
            let (idx, f) = self.begin(OpKind::Head, key);
            if stops(f) {
                return Err(self.err(idx, "head"));
            }
            self.inner.head(key).await
        })
    }
}

// ---------------------------------------------------------------------------------------
// fs_workloads
// ---------------------------------------------------------------------------------------

type FsPersistence = StreamingPersistence<FaultFs, SimulatedClock>;

async fn open(store: &Arc<FaultFs>, w: &Workload, tries: usize) -> Result<FsPersistence, String> {
    let mut last = String::new();
    for _ in 0..tries {
        match StreamingPersistence::with_clock(
            store.clone(),
            PREFIX.to_string(),
            REPLICA,
            wb_config(w),
            SimulatedClock::new(0),
        )
        .await
        {
            Ok(p) => return Ok(p),
            Err(e) => last = e.to_string(),
        }
    }
    Err(format!("StreamingPersistence::with_clock failed {} times in a row: {}", tries, last))
}

/// The directory as a restarting node sees it (plain LocalFs, no faults).
async fn verify(dir: &PathBuf, confirmed: &[ReplicationDelta], when: &str) -> Result<(), String> {
    let plain = LocalFsObjectStore::new(dir.clone());
    let rec = RecoveryManager::new(plain.clone(), PREFIX, REPLICA).recover().await;
    let rec = match rec {
        Ok(r) => r,
        Err(e) => {
            // name the object
            let mut detail = String::new();
            if let Ok(m) = ManifestManager::new(plain.clone(), PREFIX).load().await {
                for s in &m.segments {
                    match plain.get(&s.key).await {
                        Err(e) => detail = format!("; the manifest names {} which cannot be read: {}", s.key, e),
                        Ok(d) => {
                            if let Err(e) = SegmentReader::open(&d).and_then(|r| {
                                r.validate()?;
                                r.read_all()
                            }) {
                                detail = format!(
                                    "; the manifest names {} ({} bytes recorded, {} bytes on disk) which does not pass open+validate+read: {}",
                                    s.key,
                                    s.size_bytes,
                                    d.len(),
                                    e
                                );
                            }
                        }
                    }
                }
            }
            return Err(format!("{}: RecoveryManager::recover() on the directory failed: {}{}", when, e, detail));
        }
    };
    for s in &rec.manifest.segments {
        let d = plain
            .get(&s.key)
            .await
            .map_err(|e| format!("{}: the manifest names {} which cannot be read: {}", when, s.key, e))?;
        SegmentReader::open(&d)
            .and_then(|r| {
                r.validate()?;
                r.read_all()
            })
            .map_err(|e| format!("{}: the manifest names {} which does not pass open+validate+read: {}", when, s.key, e))?;
    }
    let state = fold(rec.checkpoint_state.as_ref(), &rec.deltas);
    for d in confirmed {
        if !contains(&state, d) {
            return Err(format!(
                "{}: update {} of a flush that returned Ok is not in the recovered state (recovered value of the key: {})",
                when,
                show_delta(d),
                peer_opt(state.get(&d.key))
            ));
        }
    }
    Ok(())
}

struct FsRun {
    calls: Vec<(OpKind, String, bool)>,
    result: Result<(), String>,
    reused_id_smaller: bool,
}

fn run_fs(ops: &[Op], w: &Workload, faults: &[(usize, Fault)]) -> Result<FsRun, String> {
    let dir = Scratch::new()?;
    let store = FaultFs::new(dir.0.clone(), faults, w.err_kind);
    let arc = Arc::new(store.clone());
    let tries = faults.len() + 1;
    let path = dir.0.clone();
    let result: Result<(), String> = vcore::block_on(async {
        let mut p = open(&arc, w, tries).await?;
        let mut pending: Vec<ReplicationDelta> = Vec::new();
        let mut confirmed: Vec<ReplicationDelta> = Vec::new();
        let n_ops = ops.len();
        let closing_op = Op::Flush;
        for (i, op) in ops.iter().enumerate().chain(std::iter::once((n_ops, &closing_op))) {
            let closing = i == n_ops;
            match op {
                Op::Push(spec) => {
                    let d = spec.build();
                    if p.push(d.clone()).is_ok() {
                        pending.push(d);
                    }
                }
                Op::Flush | Op::FlushIfDue => {
                    let attempts = if closing { tries } else { 1 };
                    for _ in 0..attempts {
                        if pending.is_empty() {
                            break;
                        }
                        let expected = pending.len();
                        match p.flush().await {
                            Ok(_) => confirmed.append(&mut pending),
                            Err(e) => {
                                if p.pending_count() != expected {
                                    return Err(format!(
                                        "op #{}: flush failed ({}) and pending_count() went from {} to {}",
                                        i,
                                        e,
                                        expected,
                                        p.pending_count()
                                    ));
                                }
                            }
                        }
                    }
                    if closing && !pending.is_empty() {
                        return Err(format!("{} updates still unflushed after {} closing flushes", pending.len(), tries));
                    }
                }
                Op::Compact | Op::CompactIfNeeded => {
                    // tombstone garbage collection off here (clock 0 => cutoff 0): this check is
                    // about the store, the in-memory `workloads` check covers compaction's branches
                    let mut c = Compactor::with_time_source(
                        arc.clone(),
                        PREFIX.to_string(),
                        ManifestManager::new((*arc).clone(), PREFIX),
                        comp_config(w),
                        VerifTime::new(0),
                    );
                    let _ = c.compact().await;
                }
                Op::Reopen => {
                    drop(p);
                    pending.clear();
                    p = open(&arc, w, tries).await?;
                }
                Op::Checkpoint => {}
            }
            verify(&path, &confirmed, &format!("after op #{} ({})", i, if closing { "closing flush".to_string() } else { op_name(op) }))
                .await?;
        }
        Ok(())
    });
    // evidence: a put went over an existing longer object (same key put twice, second shorter)
    let calls = store.calls();
    let mut seen: BTreeMap<&str, usize> = BTreeMap::new();
    for (op, key, _) in &calls {
        if *op == OpKind::Put && key.contains("/segments/") {
            *seen.entry(key.as_str()).or_default() += 1;
        }
    }
    let reused_id_smaller = seen.values().any(|&n| n >= 2);
    Ok(FsRun {
        calls,
        result,
        reused_id_smaller,
    })
}

fn op_name(op: &Op) -> String {
    match op {
        Op::Push(s) => format!("push {}", s.key_name()),
        Op::Flush => "flush".into(),
        Op::FlushIfDue => "flush".into(),
        Op::Compact | Op::CompactIfNeeded => "compact".into(),
        Op::Checkpoint => "-".into(),
        Op::Reopen => "reopen".into(),
    }
}

fn trace(calls: &[(OpKind, String, bool)]) -> String {
    calls
        .iter()
        .enumerate()
        .take(60)
        .map(|(i, (op, key, ok))| {
            format!(
                "      #{} {:?} {}{}\n",
                i,
                op,
                key.rsplit('/').next().unwrap_or(key),
                if *ok { "" } else { " FAILED (injected)" }
            )
        })
        .collect()
}

pub fn check_fs_workload(w: &Workload, ctx: &mut CaseCtx<'_>) -> Result<(), String> {
    // tombstone GC is switched off in this check, so no restriction / explanation is needed
    let (ops, _) = prepare(w, false);
    let base = run_fs(&ops, w, &[])?;
    if let Err(e) = &base.result {
        return Err(format!("LocalFs, no failure injected: {}\n    store calls:\n{}", e, trace(&base.calls)));
    }
    let mut evals = 1u64;
    let mut reused = base.reused_id_smaller;
    let n = base.calls.len();
    for i in 0..n {
        let kinds = match base.calls[i].0 {
            OpKind::Put => vec![Fault::Fail, Fault::PartialThenFail(500), Fault::EffectThenFail],
            OpKind::Rename | OpKind::Delete => vec![Fault::Fail, Fault::EffectThenFail],
            _ => vec![Fault::Fail],
        };
        for f in kinds {
            let r = run_fs(&ops, w, &[(i, f)])?;
            evals += 1;
            reused |= r.reused_id_smaller;
            if let Err(e) = &r.result {
                return Err(format!(
                    "LocalFs, call #{} failing once ({:?}): {}\n    store calls:\n{}",
                    i,
                    f,
                    e,
                    trace(&r.calls)
                ));
            }
        }
    }
    ctx.add_evaluations(evals);
    if reused {
        // NT: some run wrote a segment object twice under the same key (an id re-used after an
        // incomplete flush or compaction)
        ctx.nontrivial(&serde_json::to_string(&ops).unwrap_or_default());
        ctx.label("fs:segment_id_reused_after_incomplete_operation");
    }
    Ok(())
}
