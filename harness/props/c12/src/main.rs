//! C12 — Streaming persistence is crash-consistent at every step, loses nothing confirmed.
//!
//! Per generated workload of push / flush / flush-if-due / compact / compact-if-needed /
//! checkpoint / (re)open on `StreamingPersistence` + `Compactor` + `CheckpointManager` over a
//! `TraceObjectStore` (store.rs); tombstone TTL and compactor clock are generated so that every
//! branch of `compact()` (nothing to compact, nothing remains, merged, skipped large segments,
//! checkpoint present, single segment …) is reached and labelled:
//!
//!   1. the fault-free run fixes the sequence of store calls;
//!   2. EVERY crash position is examined: the store image after each call, and inside each put
//!      (the key holds a prefix of the payload; rename/delete are atomic);
//!   3. EVERY single transient failure is injected (each call failing once; a put fails both
//!      cleanly and after a partial write) and the workload re-run with the process alive;
//!      every call boundary of that run is again a crash position; thorough: pairs of failures.
//!
//!   4. check `interleaved` (inter.rs): one flush and one compaction as concurrent tasks, every
//!      interleaving of their store calls, every boundary a crash position.
//!
//! Oracle per crash image: `RecoveryManager::recover()` succeeds; every object the manifest
//! names exists and passes open+validate; the folded recovered state contains (merge order)
//! every update of every flush that had returned Ok. Oracle per failure run: after a failed
//! flush `pending_count()` still accounts for the batch; at the end (after a final flush that
//! succeeds) every accepted update that was not abandoned by a restart is recovered.

mod big;
mod fs;
mod inter;
mod model;
mod store;
mod wb;

use model::*;
use proptest::prelude::*;
use redis_sim::replication::state::{ReplicatedValue, ReplicationDelta};
use redis_sim::streaming::{
    CheckpointConfig, CheckpointInfo, CheckpointManager, CompactionConfig, CompactionError,
    CompactionResult, Compactor, ManifestManager, SegmentReader, SimulatedClock, StreamingPersistence,
    WriteBuffer, WriteBufferConfig,
};
use std::collections::{BTreeSet, HashMap};
use serde::{Deserialize, Serialize};
use serde_json::json;
use std::sync::Arc;
use std::time::Duration;
use store::*;
use vcore::time::VerifTime;
use vcore::{CaseCtx, Level, Session};

#[derive(Clone, Debug, Serialize, Deserialize)]
enum Op {
    Push(DeltaSpec),
    Flush,
    Compact,
    /// `Compactor::compact_if_needed()` (threshold `max_segments`)
    CompactIfNeeded,
    /// `if should_flush() { flush() }` (count threshold `max_deltas`)
    FlushIfDue,
    /// the documented checkpoint flow: `CheckpointManager::create_checkpoint(state, last id)`,
    /// `Manifest::compact_segments`, `ManifestManager::save`; the state snapshot is what a node
    /// that recovered from the current store would hold
    Checkpoint,
    /// process restart without a flush: the buffer is legitimately gone, a new
    /// `StreamingPersistence` is opened on the same store
    Reopen,
}

#[derive(Clone, Debug, Serialize, Deserialize)]
struct Workload {
    ops: Vec<Op>,
    min_seg: u8,
    max_seg: u8,
    /// target_segment_size = 300 bytes (bigger segments are skipped by compaction) or 1 MiB
    small_target: bool,
    /// compactor / checkpoint clock
    clock: Clock,
    /// tombstone_ttl in ms (0, small, huge)
    ttl_ms: u64,
    /// `CompactionConfig::max_segments` (threshold of compact_if_needed)
    max_segments: u8,
    /// `WriteBufferConfig::max_deltas` (threshold of should_flush)
    max_deltas: u8,
    /// backpressure threshold of 140 estimated bytes (two buffered updates) instead of 16 MiB
    small_backpressure: bool,
    /// `std::io::ErrorKind` carried by every injected failure of this workload (index into
    /// `store::ERROR_KINDS`; 0 = Other). The code under test branches on the kind in places.
    #[serde(default)]
    err_kind: u8,
}

const EPOCH_MS: u64 = 1_790_000_000_000;

#[derive(Clone, Copy, Debug, Serialize, Deserialize)]
enum Clock {
    /// now = EPOCH_MS + offset, as ProductionTimeSource yields; stamps remain logical counters
    Production(u32),
    /// now = the value (the in-tree tests' regime, stamps read as ms)
    Simulated(u32),
}

impl Clock {
    fn now(&self) -> u64 {
        match self {
            Clock::Production(o) => EPOCH_MS + *o as u64,
            Clock::Simulated(n) => *n as u64,
        }
    }
}

impl Workload {
    fn cutoff(&self) -> u64 {
        self.clock.now().saturating_sub(self.ttl_ms)
    }
}

fn wb_config(w: &Workload) -> WriteBufferConfig {
    WriteBufferConfig {
        flush_interval: Duration::from_secs(3600),
        max_size_bytes: 1 << 20,
        max_deltas: w.max_deltas.max(1) as usize,
        backpressure_threshold_bytes: if w.small_backpressure { 140 } else { 1 << 24 },
        compression_enabled: false,
    }
}

fn comp_config(w: &Workload) -> CompactionConfig {
    CompactionConfig {
        target_segment_size: if w.small_target { 300 } else { 1 << 20 },
        max_segments: w.max_segments.max(1) as usize,
        min_segments_to_compact: w.min_seg.max(1) as usize,
        max_segments_per_compaction: w.max_seg.max(w.min_seg).max(1) as usize,
        tombstone_ttl: Duration::from_millis(w.ttl_ms),
        compression_enabled: false,
    }
}

type Persistence = StreamingPersistence<TraceObjectStore, SimulatedClock>;

fn open(store: &Arc<TraceObjectStore>, w: &Workload) -> Result<Persistence, String> {
    run_now(StreamingPersistence::with_clock(
        store.clone(),
        PREFIX.to_string(),
        REPLICA,
        wb_config(w),
        SimulatedClock::new(0),
    ))
    .map_err(|e| e.to_string())
}

struct FlushEv {
    op_idx: usize,
    /// indices into RunOut::deltas
    batch: Vec<usize>,
    ok: bool,
    err: String,
    /// every update that was in the buffer when this flush started (whatever its outcome:
    /// with "took effect but reported an error" a failed flush may have published them)
    attempted: Vec<usize>,
    first_call: usize,
    calls_at_return: usize,
    expected_pending: usize,
    observed_pending: usize,
    seg_key: Option<String>,
}

struct CompactEv {
    first_call: usize,
    calls_at_return: usize,
    ok: bool,
}

/// Which branch of compact() / compact_if_needed() an operation took (for the evidence labels).
fn classify_compaction(
    before: &Image,
    w: &Workload,
    res: &Result<CompactionResult, CompactionError>,
    labels: &mut BTreeSet<String>,
) {
    let cfg = comp_config(w);
    let m = read_manifest(before);
    let n = m.as_ref().map(|m| m.segments.len()).unwrap_or(0);
    let small = m
        .as_ref()
        .map(|m| {
            m.segments
                .iter()
                .filter(|s| s.size_bytes < cfg.target_segment_size as u64)
                .count()
        })
        .unwrap_or(0);
    let mut l = |s: &str| {
        labels.insert(format!("compact:{}", s));
    };
    if n == 0 {
        l("empty_manifest");
    }
    if small < n {
        l("large_segments_skipped");
    }
    let checkpoint = m.as_ref().map(|m| m.checkpoint.is_some()).unwrap_or(false);
    if checkpoint {
        l("checkpoint_present");
    }
    match res {
        Err(CompactionError::NothingToCompact) => l("too_few_candidates"),
        Err(_) => l("error"),
        Ok(r) => {
            if r.segment_created.is_some() {
                l("merged");
            } else if r.deltas_before == 0 {
                l("only_missing_cleanup");
            } else {
                l("nothing_remains");
                if checkpoint {
                    l("nothing_remains+checkpoint");
                }
            }
            if r.tombstones_removed > 0 {
                l("tombstones_dropped");
            }
            if r.segments_removed.len() == 1 {
                l("single_segment");
            }
            if r.segments_removed.len() < n {
                l("some_segments_outside");
            }
            if small > cfg.max_segments_per_compaction {
                l("cut_at_max_per_compaction");
            }
        }
    }
}

struct RunOut {
    store: TraceObjectStore,
    /// a compaction had already started in a previous incarnation of the process
    pre_compaction: bool,
    /// branch labels (evidence only)
    labels: BTreeSet<String>,
    /// updates confirmed by a previous incarnation of the process (restart-after-crash runs)
    pre_confirmed: Vec<ReplicationDelta>,
    /// (global op index, number of store calls made before the op started)
    op_first_call: Vec<(usize, usize)>,
    deltas: Vec<ReplicationDelta>,
    flushes: Vec<FlushEv>,
    compacts: Vec<CompactEv>,
    /// things that are wrong whatever the finding list says
    anomalies: Vec<String>,
    /// accepted updates still in the buffer at the end although the final flushes were tried
    unflushed_at_end: usize,
}

/// Execute the workload with the process alive throughout; `faults` are transient failures by
/// global call index. A final flush (retried) closes the workload.
fn run(ops: &[Op], w: &Workload, faults: &[(usize, Fault)]) -> RunOut {
    run_from(Image::new(), ops, 0, Vec::new(), false, w, faults)
}

/// The same on an existing store image: a new process started after a crash executes
/// `ops` (numbered from `op_offset`); `pre_confirmed` are the updates whose flush had returned
/// Ok before the crash.
fn run_from(
    initial: Image,
    ops: &[Op],
    op_offset: usize,
    pre_confirmed: Vec<ReplicationDelta>,
    pre_compaction: bool,
    w: &Workload,
    faults: &[(usize, Fault)],
) -> RunOut {
    let store = TraceObjectStore::from_image(initial);
    store.set_faults(faults);
    store.set_error_kind(w.err_kind);
    let arc = Arc::new(store.clone());
    let mut out = RunOut {
        store: store.clone(),
        pre_compaction,
        labels: BTreeSet::new(),
        pre_confirmed,
        op_first_call: Vec::new(),
        deltas: Vec::new(),
        flushes: Vec::new(),
        compacts: Vec::new(),
        anomalies: Vec::new(),
        unflushed_at_end: 0,
    };
    let reopen = |out: &mut RunOut| -> Option<Persistence> {
        for _ in 0..=faults.len() {
            if let Ok(p) = open(&arc, w) {
                return Some(p);
            }
        }
        out.anomalies.push(format!(
            "StreamingPersistence::with_clock failed {} times in a row although only {} transient failures were injected",
            faults.len() + 1,
            faults.len()
        ));
        None
    };
    if read_manifest(&store.image()).is_some() {
        out.labels.insert("open:existing_manifest".into());
    } else {
        out.labels.insert("open:no_manifest".into());
    }
    let Some(mut p) = reopen(&mut out) else {
        return out;
    };
    // model: accepted and not yet confirmed by a successful flush (indices into out.deltas)
    let mut pending: Vec<usize> = Vec::new();

    fn do_flush(p: &mut Persistence, pending: &mut Vec<usize>, out: &mut RunOut, op_idx: usize) {
        if pending.is_empty() && p.pending_count() == 0 {
            // flush() on an empty buffer: Ok without touching the store
            let before = out.store.call_count();
            match run_now(p.flush()) {
                Ok(r) if r.deltas_flushed == 0 && r.segment.is_none() && out.store.call_count() == before => {
                    out.labels.insert("flush:empty_buffer".into());
                }
                other => out.anomalies.push(format!(
                    "op #{} flush() on an empty buffer: {:?}, {} store calls",
                    op_idx,
                    other.map(|r| r.deltas_flushed).map_err(|e| e.to_string()),
                    out.store.call_count() - before
                )),
            }
            return;
        }
        let first_call = out.store.call_count();
        let attempted = pending.clone();
        let r = run_now(p.flush());
        let calls_at_return = out.store.call_count();
        let expected = pending.len();
        match r {
            Ok(res) => {
                if res.deltas_flushed != expected {
                    out.anomalies.push(format!(
                        "op #{} flush returned Ok with deltas_flushed = {} but {} accepted updates were pending",
                        op_idx, res.deltas_flushed, expected
                    ));
                }
                out.flushes.push(FlushEv {
                    op_idx,
                    batch: std::mem::take(pending),
                    ok: true,
                    err: String::new(),
                    attempted,
                    first_call,
                    calls_at_return,
                    expected_pending: expected,
                    observed_pending: p.pending_count(),
                    seg_key: res.segment.map(|s| s.key),
                });
            }
            Err(e) => {
                let observed = p.pending_count();
                let batch = if observed == expected {
                    Vec::new() // still pending, nothing lost
                } else {
                    // re-synchronise the model with the implementation: those updates are gone
                    std::mem::take(pending)
                };
                if observed != expected && observed != 0 {
                    out.anomalies.push(format!(
                        "op #{} flush failed ({}) and pending_count() = {} is neither the {} accepted updates nor 0",
                        op_idx, e, observed, expected
                    ));
                }
                out.flushes.push(FlushEv {
                    op_idx,
                    batch,
                    ok: false,
                    err: e.to_string(),
                    attempted,
                    first_call,
                    calls_at_return,
                    expected_pending: expected,
                    observed_pending: observed,
                    seg_key: None,
                });
            }
        }
    }

    for (k, op) in ops.iter().enumerate() {
        let op_idx = op_offset + k;
        out.op_first_call.push((op_idx, store.call_count()));
        match op {
            Op::Push(spec) => {
                let d = spec.build();
                match p.push(d.clone()) {
                    Ok(()) => {
                        out.deltas.push(d);
                        pending.push(out.deltas.len() - 1);
                    }
                    Err(e) => {
                        // not accepted: nothing is claimed for it
                        if e.to_string().contains("Backpressure") && w.small_backpressure {
                            out.labels.insert("push:refused_backpressure".into());
                        } else {
                            out.anomalies.push(format!("op #{} push refused: {}", op_idx, e));
                        }
                    }
                }
            }
            Op::Flush => do_flush(&mut p, &mut pending, &mut out, op_idx),
            Op::Compact | Op::CompactIfNeeded => {
                let mm = ManifestManager::new(store.clone(), PREFIX);
                let mut c = Compactor::with_time_source(
                    arc.clone(),
                    PREFIX.to_string(),
                    mm,
                    comp_config(w),
                    VerifTime::new(w.clock.now()),
                );
                let first_call = store.call_count();
                let before = store.image();
                let r = if matches!(op, Op::Compact) {
                    run_now(c.compact())
                } else {
                    match run_now(c.compact_if_needed()) {
                        Ok(Some(r)) => {
                            out.labels.insert("compact_if_needed:compacted".into());
                            Ok(r)
                        }
                        Ok(None) => {
                            out.labels.insert("compact_if_needed:none".into());
                            Err(CompactionError::NothingToCompact)
                        }
                        Err(e) => Err(e),
                    }
                };
                classify_compaction(&before, w, &r, &mut out.labels);
                out.compacts.push(CompactEv {
                    first_call,
                    calls_at_return: store.call_count(),
                    ok: r.is_ok(),
                });
            }
            Op::FlushIfDue => {
                if p.should_flush() {
                    out.labels.insert("flush_if_due:due".into());
                    do_flush(&mut p, &mut pending, &mut out, op_idx);
                } else {
                    out.labels.insert("flush_if_due:not_due".into());
                }
            }
            Op::Checkpoint => {
                // snapshot = what a node recovered from the current store holds (harness side,
                // on a copy); it covers every segment the manifest lists
                if let Ok(rec) = recover_image(&store.image()) {
                    if let Some(last) = rec.manifest.segments.iter().map(|s| s.id).max() {
                        let state: HashMap<String, ReplicatedValue> = rec.state.into_iter().collect();
                        let mm = ManifestManager::new(store.clone(), PREFIX);
                        let cm = CheckpointManager::with_time_source(
                            arc.clone(),
                            PREFIX.to_string(),
                            mm.clone(),
                            CheckpointConfig {
                                interval: Duration::from_secs(3600),
                                min_segments: 1,
                                compression_enabled: false,
                            },
                            // one checkpoint object per op (production keys them by wall ms)
                            VerifTime::new(w.clock.now() + 1 + op_idx as u64),
                        );
                        if let Ok(cr) = run_now(cm.create_checkpoint(state, last)) {
                            if let Ok(mut m) = run_now(mm.load()) {
                                m.compact_segments(CheckpointInfo {
                                    key: cr.key,
                                    timestamp_ms: cr.timestamp_ms,
                                    key_count: cr.key_count,
                                    last_segment_id: cr.last_segment_id,
                                });
                                if run_now(mm.save(&m)).is_ok() {
                                    out.labels.insert("checkpoint:installed".into());
                                }
                            }
                        }
                    }
                }
            }
            Op::Reopen => {
                drop(p);
                pending.clear();
                if read_manifest(&store.image()).is_some() {
                    out.labels.insert("open:existing_manifest".into());
                }
                match reopen(&mut out) {
                    Some(np) => p = np,
                    None => return out,
                }
            }
        }
    }
    // closing flush: transient failures are over after at most faults.len() attempts
    out.op_first_call.push((op_offset + ops.len(), store.call_count()));
    for _ in 0..=faults.len() {
        if pending.is_empty() {
            break;
        }
        do_flush(&mut p, &mut pending, &mut out, op_offset + ops.len());
    }
    out.unflushed_at_end = pending.len();
    out
}

/// Prefix lengths at which a crash inside a put of `len` bytes is examined.
fn prefixes(len: usize, all: bool) -> Vec<usize> {
    if all || len <= 48 {
        return (0..len).collect();
    }
    const H: usize = 40; // segment header
    const F: usize = 24; // segment footer
    let mut v = vec![
        0,
        1,
        2,
        H - 1,
        H,
        H + 1,
        len / 4,
        len / 2,
        (3 * len) / 4,
        len.saturating_sub(F + 1),
        len.saturating_sub(F),
        len.saturating_sub(F - 1),
        len - 2,
        len - 1,
    ];
    v.retain(|&p| p < len);
    v.sort();
    v.dedup();
    v
}

fn trace_text(r: &RunOut) -> String {
    let calls = r.store.calls();
    let mut s = String::new();
    for c in calls.iter().take(80) {
        s.push_str("      ");
        s.push_str(&c.short());
        s.push('\n');
    }
    if calls.len() > 80 {
        s.push_str(&format!("      … {} more calls\n", calls.len() - 80));
    }
    s
}

/// Updates of flushes that had returned Ok when `calls_done` store calls were complete
/// (None = confirmed by a previous incarnation of the process).
fn confirmed_at(r: &RunOut, calls_done: usize) -> Vec<(Option<usize>, &ReplicationDelta)> {
    let mut v: Vec<(Option<usize>, &ReplicationDelta)> = r.pre_confirmed.iter().map(|d| (None, d)).collect();
    for (fi, f) in r.flushes.iter().enumerate() {
        if f.ok && f.calls_at_return <= calls_done {
            v.extend(f.batch.iter().map(|&di| (Some(fi), &r.deltas[di])));
        }
    }
    v
}

fn describe_flush(r: &RunOut, fi: Option<usize>) -> String {
    match fi {
        None => "a flush that returned Ok before the crash/restart".to_string(),
        Some(fi) => {
            let f = &r.flushes[fi];
            format!(
                "the flush at op #{} (returned Ok after call #{}, segment {:?})",
                f.op_idx,
                f.calls_at_return.saturating_sub(1),
                f.seg_key
            )
        }
    }
}

/// First confirmed update missing from `state` (probe helper).
fn missing_confirmed(r: &RunOut, calls_done: usize, state: &State) -> Option<(String, ReplicationDelta)> {
    confirmed_at(r, calls_done)
        .into_iter()
        .find(|(_, d)| !contains(state, d))
        .map(|(fi, d)| (describe_flush(r, fi), d.clone()))
}

enum Gc {
    /// legitimate garbage collection of an expired tombstone (and of what it had overwritten)
    Accepted,
    /// one of C13's open tombstone findings explains the loss
    Finding(&'static str),
}

/// Tombstone garbage collection (C13's subject) as the explanation of a missing confirmed
/// update `d`: a compaction had started before the crash position, and an LWW tombstone of
/// the same key that may be on the store (confirmed, or part of any flush attempt that had
/// started) with a stamp >= d's (possibly d itself) is droppable by the
/// implementation's rule `stamp.time < now_ms - ttl_ms`. What the recovered state shows for
/// the key decides: production-like clock => the tombstone was younger than any TTL
/// (KF-C13-02); simulated clock => accepted unless a client-visible value came back
/// (KF-C13-03: an older value outside the compaction resurfaced).
fn gc_explains(
    r: &RunOut,
    w: &Workload,
    calls_done: usize,
    d: &ReplicationDelta,
    confirmed: &[(Option<usize>, &ReplicationDelta)],
    state: &State,
) -> Option<Gc> {
    if d.value.lww().is_none() {
        return None;
    }
    if !(r.pre_compaction || r.compacts.iter().any(|c| c.first_call < calls_done)) {
        return None;
    }
    let cutoff = w.cutoff();
    let droppable = |t: &ReplicationDelta| {
        t.key == d.key
            && t.value.is_tombstone()
            && t.value.timestamp.time < cutoff
            && t.value.timestamp >= d.value.timestamp
    };
    // a tombstone that may be on the store: confirmed, or in the batch of any flush attempt
    // that had started (a flush whose rename took effect may still have reported an error)
    let covered = confirmed.iter().any(|(_, t)| droppable(t))
        || r.flushes
            .iter()
            .filter(|f| f.first_call < calls_done)
            .flat_map(|f| f.attempted.iter())
            .any(|&di| droppable(&r.deltas[di]));
    if !covered {
        return None;
    }
    Some(match w.clock {
        Clock::Production(_) => Gc::Finding("KF-C13-02"),
        Clock::Simulated(_) => {
            if client(state.get(&d.key)) != client(None) {
                Gc::Finding("KF-C13-03")
            } else {
                Gc::Accepted
            }
        }
    })
}

/// KF-C12-02 matcher: an injected failing `get` of a segment object was issued by a compaction
/// that returned Ok, at or before the crash position, and the object it could not read held
/// the missing update.
fn matches_kf02(r: &RunOut, faults: &[(usize, Fault)], calls_done: usize, missing: &ReplicationDelta) -> bool {
    let calls = r.store.calls();
    faults.iter().any(|(j, _)| {
        let Some(c) = calls.get(*j) else { return false };
        if !(*j < calls_done && c.op == OpKind::Get && c.injected && c.key.contains("/segments/")) {
            return false;
        }
        if !r
            .compacts
            .iter()
            .any(|c| c.ok && c.first_call <= *j && *j < c.calls_at_return)
        {
            return false;
        }
        // the object that could not be read held the missing update (directly, or as the
        // output of an earlier compaction)
        let img = r.store.image_before(*j);
        let Some(data) = img.get(&c.key) else { return false };
        match SegmentReader::open(data).and_then(|rd| rd.read_all()) {
            Ok(ds) => contains(&fold(None, &ds), missing),
            Err(_) => false,
        }
    })
}

/// The oracle on one crash image. `calls_done` = number of store calls that completed.
fn check_image(
    r: &RunOut,
    w: &Workload,
    faults: &[(usize, Fault)],
    img: &Image,
    calls_done: usize,
    what: &str,
    ctx: &mut CaseCtx<'_>,
) -> Result<(), String> {
    let rec = match recover_image(img) {
        Ok(rec) => rec,
        Err(f) => {
            return Err(format!(
                "crash {}: {}\n    injected failures: {:?}\n    store calls:\n{}",
                what,
                f,
                faults,
                trace_text(r)
            ))
        }
    };
    let confirmed = confirmed_at(r, calls_done);
    for (fi, d) in &confirmed {
        if contains(&rec.state, d) {
            continue;
        }
        match gc_explains(r, w, calls_done, d, &confirmed, &rec.state) {
            Some(Gc::Accepted) => {
                ctx.label("tombstone_gc_accepted");
                continue;
            }
            Some(Gc::Finding(id)) if ctx.tolerate(id) => continue,
            _ => {}
        }
        if matches_kf02(r, faults, calls_done, d) && ctx.tolerate("KF-C12-02") {
            continue;
        }
        return Err(format!(
            "crash {}: recovery succeeds but update {} of {} is not in the recovered state (recovered value of the key: {})\n    injected failures: {:?}\n    compactor clock {:?}, ttl {} ms => tombstone cutoff {}\n    manifest: segments {:?}, checkpoint {:?}\n    store calls:\n{}",
            what,
            show_delta(d),
            describe_flush(r, *fi),
            peer_opt(rec.state.get(&d.key)),
            faults,
            w.clock,
            w.ttl_ms,
            w.cutoff(),
            rec.manifest.segments.iter().map(|s| s.id).collect::<Vec<_>>(),
            rec.manifest.checkpoint.as_ref().map(|c| c.last_segment_id),
            trace_text(r)
        ));
    }
    Ok(())
}

/// All oracles on one run. Crash positions before `from_call` were already examined on the
/// run this one is an extension of (identical prefix) and are skipped.
fn check_run(
    r: &RunOut,
    w: &Workload,
    faults: &[(usize, Fault)],
    from_call: usize,
    partial_puts: Option<bool>,
    ctx: &mut CaseCtx<'_>,
) -> Result<u64, String> {
    if let Some(a) = r.anomalies.first() {
        return Err(format!("{}\n    injected failures: {:?}\n    store calls:\n{}", a, faults, trace_text(r)));
    }
    // process keeps running: a failed flush must not make accepted updates disappear
    for f in &r.flushes {
        if !f.ok && faults.is_empty() {
            return Err(format!(
                "flush at op #{} failed without any injected failure: {}\n    store calls:\n{}",
                f.op_idx,
                f.err,
                trace_text(r)
            ));
        }
        if !f.ok && f.observed_pending != f.expected_pending {
            // KF-C12-01 matcher: flush returned Err and the buffer is empty although the
            // batch was never persisted
            if f.observed_pending == 0 && f.expected_pending > 0 && ctx.tolerate("KF-C12-01") {
                continue;
            }
            return Err(format!(
                "flush at op #{} failed ({}) and pending_count() dropped from {} to {}: the accepted updates [{}] are neither persisted nor pending\n    injected failures: {:?}\n    store calls:\n{}",
                f.op_idx,
                f.err,
                f.expected_pending,
                f.observed_pending,
                f.batch.iter().take(4).map(|&d| show_delta(&r.deltas[d])).collect::<Vec<_>>().join(", "),
                faults,
                trace_text(r)
            ));
        }
    }
    if r.unflushed_at_end != 0 {
        return Err(format!(
            "{} accepted updates are still unflushed after {} closing flush attempts with {} transient failures\n    store calls:\n{}",
            r.unflushed_at_end,
            faults.len() + 1,
            faults.len(),
            trace_text(r)
        ));
    }
    let calls = r.store.calls();
    let n = calls.len();
    let mut images = 0u64;
    if from_call == 0 {
        check_image(r, w, faults, &r.store.image_before(0), 0, "before the first call", ctx)?;
        images += 1;
    }
    for i in from_call..n {
        if let (Some(all), OpKind::Put) = (partial_puts, calls[i].op) {
            let len = calls[i].data.as_ref().map(|d| d.len()).unwrap_or(0);
            for p in prefixes(len, all) {
                let img = r.store.image_inside_put(i, p).expect("put");
                check_image(
                    r,
                    w,
                    faults,
                    &img,
                    i,
                    &format!("inside call {} after {} of {} bytes", calls[i].short(), p, len),
                    ctx,
                )?;
                images += 1;
            }
        }
        check_image(
            r,
            w,
            faults,
            &r.store.image_after(i),
            i + 1,
            &format!("after call {}", calls[i].short()),
            ctx,
        )?;
        images += 1;
    }
    Ok(images)
}

/// The ops actually executed. While KF-C13-01 is open (compaction keeps one delta per key
/// instead of merging) workloads that compact are restricted to updates on which keep-latest
/// and merge agree: plain LWW sets/deletes with per-key unique times. Returns whether the
/// restriction changed anything.
fn prepare(w: &Workload, restrict: bool) -> (Vec<Op>, bool) {
    let mut ops = w.ops.clone();
    let original = ops.clone();
    let compacts = ops.iter().any(|o| matches!(o, Op::Compact | Op::CompactIfNeeded));
    let restrict = restrict && compacts;
    if restrict {
        for o in ops.iter_mut() {
            if let Op::Push(s) = o {
                match s.action.clone() {
                    Action::SetEx { val, .. } => s.action = Action::Set { val, pad: 0 },
                    Action::HSet { val, .. } | Action::HSetEx { val, .. } => {
                        s.action = Action::Set { val, pad: 0 }
                    }
                    Action::HSet2 { v1, .. } => s.action = Action::Set { val: v1, pad: 0 },
                    Action::HDel { .. } => s.action = Action::Del,
                    _ => {}
                }
            }
        }
    }
    uniquify(
        ops.iter_mut().filter_map(|o| match o {
            Op::Push(s) => Some(s),
            _ => None,
        }),
        restrict,
    );
    let changed = if restrict {
        // compare with what the unrestricted preparation would have produced
        let mut plain = original;
        uniquify(
            plain.iter_mut().filter_map(|o| match o {
                Op::Push(s) => Some(s),
                _ => None,
            }),
            false,
        );
        serde_json::to_string(&plain).ok() != serde_json::to_string(&ops).ok()
    } else {
        false
    };
    (ops, changed)
}

fn fault_variants(op: OpKind) -> Vec<Fault> {
    match op {
        // EffectThenFail: the call took effect (object stored / removed / destination written)
        // and still reported an error
        OpKind::Put => vec![Fault::Fail, Fault::PartialThenFail(500), Fault::EffectThenFail],
        OpKind::Rename | OpKind::Delete => vec![Fault::Fail, Fault::EffectThenFail],
        // read-side faults: the bytes come back damaged once, the stored object is intact
        OpKind::Get => vec![Fault::Fail, Fault::CorruptGet(500), Fault::TruncateGet(500)],
        _ => vec![Fault::Fail],
    }
}

fn check_workload(w: &Workload, ctx: &mut CaseCtx<'_>) -> Result<(), String> {
    let thorough = ctx.tier() == vcore::Tier::Thorough;
    let (ops, restricted) = prepare(w, ctx.finding_open("KF-C13-01"));
    if restricted {
        ctx.tolerate("KF-C13-01");
    }

    // 1. fault-free run
    let base = run(&ops, w, &[]);
    for f in &base.flushes {
        if !f.ok {
            return Err(format!(
                "fault-free run: flush at op #{} failed: {}\n{}",
                f.op_idx,
                f.err,
                trace_text(&base)
            ));
        }
    }
    let calls = base.store.calls();
    let n0 = calls.len();
    let ok_flushes = base.flushes.iter().filter(|f| f.ok).count();
    let compacted = base.compacts.iter().any(|c| c.ok);
    if ok_flushes >= 2 {
        ctx.label("flushes>=2");
    }
    if compacted {
        ctx.label("compaction_ok");
    }
    if ops.iter().any(|o| matches!(o, Op::Reopen)) {
        ctx.label("reopen");
    }
    // which branches of compact() / flush() / open the fault-free run went through (every
    // store call of those branches is then a crash and a failure position below)
    for l in &base.labels {
        ctx.label(l);
    }
    match w.clock {
        Clock::Production(_) => ctx.label("clock:production"),
        Clock::Simulated(_) => ctx.label("clock:simulated"),
    }
    ctx.label(&format!("fault_kind:{}", error_kind(w.err_kind).1));
    if ok_flushes >= 2 {
        // NT: with >= 2 successful flushes the enumeration below necessarily contains crash
        // and fault positions between a segment put and its manifest rename (and inside
        // compaction when one ran)
        let sig: Vec<(OpKind, String)> = calls
            .iter()
            .map(|c| (c.op, c.key.rsplit('/').next().unwrap_or("").to_string()))
            .collect();
        ctx.nontrivial(&(sig, base.deltas.len()));
    }

    // 2. every crash position of the fault-free run
    let mut evals = check_run(&base, w, &[], 0, Some(thorough), ctx)?;

    // 2b. restart after the crash: a new process opens the crash image and executes the rest of
    //     the workload (orphan objects, a stale manifest.json.tmp and half-written objects are
    //     now part of its world); its own call boundaries are crash positions again
    let confirmed_before = |calls_done: usize| -> Vec<ReplicationDelta> {
        base.flushes
            .iter()
            .filter(|f| f.ok && f.calls_at_return <= calls_done)
            .flat_map(|f| f.batch.iter().map(|&d| base.deltas[d].clone()))
            .collect()
    };
    for i in 0..n0 {
        // the op during which call i was made dies with the process
        let next_op = base
            .op_first_call
            .iter()
            .filter(|(_, c)| *c <= i)
            .map(|(k, _)| *k + 1)
            .max()
            .unwrap_or(0)
            .min(ops.len());
        let mut images = vec![(base.store.image_after(i), i + 1)];
        if calls[i].op == OpKind::Put {
            let len = calls[i].data.as_ref().map(|d| d.len()).unwrap_or(0);
            images.push((base.store.image_inside_put(i, len / 2).expect("put"), i));
        }
        for (img, calls_done) in images {
            let pre_compaction = base.compacts.iter().any(|c| c.first_call < calls_done);
            let r = run_from(img, &ops[next_op..], next_op, confirmed_before(calls_done), pre_compaction, w, &[]);
            evals += 1 + check_run(&r, w, &[], 0, None, ctx).map_err(|e| {
                format!(
                    "after a crash {} call {} of the fault-free run and a restart that executes ops #{}..: {}",
                    if calls_done == i { "inside" } else { "after" },
                    calls[i].short(),
                    next_op,
                    e
                )
            })?;
        }
    }

    // 3. every single transient failure; every call boundary from the failing call on is a
    //    crash position again
    for i in 0..n0 {
        for fault in fault_variants(calls[i].op) {
            let faults = [(i, fault)];
            let r = run(&ops, w, &faults);
            evals += 1 + check_run(&r, w, &faults, i, None, ctx)?;
            if thorough && fault == Fault::Fail {
                // pairs: a second failure at every later call of *that* run
                let n1 = r.store.call_count();
                for j in (i + 1)..n1 {
                    let faults2 = [(i, fault), (j, Fault::Fail)];
                    let r2 = run(&ops, w, &faults2);
                    evals += 1 + check_run(&r2, w, &faults2, j, None, ctx)?;
                }
            }
        }
    }
    ctx.add_evaluations(evals);
    Ok(())
}

// ---------------------------------------------------------------------------------------
// generator
// ---------------------------------------------------------------------------------------

fn action() -> impl Strategy<Value = Action> {
    prop_oneof![
        5 => (0u8..6, prop_oneof![4 => Just(0u16), 1 => 40u16..260]).prop_map(|(val, pad)| Action::Set { val, pad }),
        1 => (0u8..6, 1000u32..5000).prop_map(|(val, expiry)| Action::SetEx { val, expiry }),
        3 => Just(Action::Del),
        2 => (0u8..4, 0u8..6).prop_map(|(field, val)| Action::HSet { field, val }),
        1 => (0u8..4, 0u8..6, 0u8..4, 0u8..6).prop_map(|(f1, v1, f2, v2)| Action::HSet2 { f1, v1, f2, v2 }),
        1 => (0u8..4).prop_map(|field| Action::HDel { field }),
        1 => (0u8..4, 0u8..6, 1000u32..5000).prop_map(|(field, val, expiry)| Action::HSetEx { field, val, expiry }),
    ]
}

fn delta_spec() -> impl Strategy<Value = DeltaSpec> {
    (0u8..4, action(), 1u8..4, 1u64..30).prop_map(|(key, action, replica, time)| DeltaSpec {
        key,
        action,
        replica,
        time,
    })
}

fn clock() -> impl Strategy<Value = Clock> {
    prop_oneof![
        1 => (0u32..100_000).prop_map(Clock::Production),
        1 => (0u32..200).prop_map(Clock::Simulated),
    ]
}

fn ttl() -> impl Strategy<Value = u64> {
    prop_oneof![
        2 => Just(0u64),
        1 => Just(10),
        1 => Just(50),
        1 => Just(3_600_000),
        1 => Just(u64::MAX / 4),
    ]
}

/// `profile` 0 = mixed updates; 1 = delete-heavy on two string keys (so that whole segments end
/// up all-tombstone and compaction takes its "nothing remains" branch when the cutoff is
/// past the stamps); 2 = padded values (segments above the size target are skipped).
fn delta_spec_for(profile: u8) -> BoxedStrategy<DeltaSpec> {
    match profile {
        1 => (
            0u8..2,
            prop_oneof![3 => Just(Action::Del), 1 => (0u8..6).prop_map(|val| Action::Set { val, pad: 0 })],
            1u8..4,
            1u64..30,
        )
            .prop_map(|(key, action, replica, time)| DeltaSpec {
                key,
                action,
                replica,
                time,
            })
            .boxed(),
        2 => (
            0u8..4,
            prop_oneof![
                3 => (0u8..6, 150u16..400).prop_map(|(val, pad)| Action::Set { val, pad }),
                2 => (0u8..6).prop_map(|val| Action::Set { val, pad: 0 }),
                1 => Just(Action::Del),
            ],
            1u8..4,
            1u64..30,
        )
            .prop_map(|(key, action, replica, time)| DeltaSpec {
                key,
                action,
                replica,
                time,
            })
            .boxed(),
        _ => delta_spec().boxed(),
    }
}

fn workload(max_ops: usize) -> impl Strategy<Value = Workload> {
    // ops are generated in chunks so that compactions usually find several flushed segments:
    // "1-3 pushes then a flush" is the common chunk
    let ops = prop_oneof![3 => Just(0u8), 3 => Just(1u8), 2 => Just(2u8)].prop_flat_map(move |profile| {
        let batch = (proptest::collection::vec(delta_spec_for(profile), 1..4))
            .prop_map(|ds| {
                let mut v: Vec<Op> = ds.into_iter().map(Op::Push).collect();
                v.push(Op::Flush);
                v
            })
            .boxed();
        let chunk = prop_oneof![
            16 => batch.clone(),
            9 => Just(vec![Op::Compact]),
            4 => delta_spec_for(profile).prop_map(|d| vec![Op::Push(d)]),
            2 => Just(vec![Op::Flush]),
            3 => (proptest::collection::vec(delta_spec_for(profile), 1..4)).prop_map(|ds| {
                let mut v: Vec<Op> = ds.into_iter().map(Op::Push).collect();
                v.push(Op::FlushIfDue);
                v
            }),
            1 => Just(vec![Op::FlushIfDue]),
            2 => Just(vec![Op::CompactIfNeeded]),
            2 => Just(vec![Op::Checkpoint]),
            2 => Just(vec![Op::Reopen]),
        ];
        // usually two or three flushed batches first, then anything
        let warmup = prop_oneof![1 => Just(0usize), 3 => Just(2usize), 2 => Just(3usize)]
            .prop_flat_map({
                let batch = batch.clone();
                move |n| proptest::collection::vec(batch.clone(), n..=n)
            });
        (warmup, proptest::collection::vec(chunk, 1..9)).prop_map(move |(w, chunks)| {
            let mut ops: Vec<Op> = w.into_iter().chain(chunks).flatten().collect();
            ops.truncate(max_ops);
            ops
        })
    });
    (
        ops,
        prop_oneof![1 => Just(1u8), 4 => Just(2u8), 1 => Just(3u8)],
        2u8..6,
        prop_oneof![2 => Just(false), 1 => Just(true)],
        clock(),
        ttl(),
        2u8..5,
        prop_oneof![1 => Just(200u8), 1 => 1u8..4],
        prop_oneof![5 => Just(false), 1 => Just(true)],
        // kind of the injected errors: Other (what the in-tree fault injector uses) or one of
        // the other kinds a real store reports (timed out, interrupted, connection reset, …)
        prop_oneof![3 => Just(0u8), 5 => 1u8..(ERROR_KINDS.len() as u8)],
    )
        .prop_map(
            |(ops, min_seg, max_seg, small_target, clock, ttl_ms, max_segments, max_deltas, small_backpressure, err_kind)| Workload {
                ops,
                min_seg,
                max_seg,
                small_target,
                clock,
                ttl_ms,
                max_segments,
                max_deltas,
                small_backpressure,
                err_kind,
            },
        )
}

// ---------------------------------------------------------------------------------------
// probes
// ---------------------------------------------------------------------------------------

fn push(key: u8, val: u8, time: u64) -> Op {
    Op::Push(DeltaSpec {
        key,
        action: Action::Set { val, pad: 0 },
        replica: 1,
        time,
    })
}

fn plain_workload(ops: Vec<Op>) -> Workload {
    Workload {
        ops,
        min_seg: 2,
        max_seg: 5,
        small_target: false,
        clock: Clock::Simulated(0),
        ttl_ms: 3_600_000,
        max_segments: 2,
        max_deltas: 200,
        small_backpressure: false,
        err_kind: 0,
    }
}

/// KF-C12-01: one push, one flush, each of the flush's four store calls failing once.
fn probe_kf01() -> Option<String> {
    let w = plain_workload(vec![push(0, 1, 1), push(1, 2, 2), Op::Flush]);
    // call 0 is the manifest load of open(); the flush makes calls 1..=4
    let mut hits = Vec::new();
    for i in 1..=4usize {
        let r = run(&w.ops, &w, &[(i, Fault::Fail)]);
        let f = r.flushes.first()?;
        if !f.ok && f.expected_pending == 2 && f.observed_pending == 0 {
            hits.push(format!("{}", r.store.calls()[i].short()));
        }
    }
    // the same pattern in WriteBuffer::flush
    let st = TraceObjectStore::new();
    st.set_faults(&[(0, Fault::Fail)]);
    let wb = WriteBuffer::new(Arc::new(st.clone()), "wb".to_string(), wb_config(&w));
    for (k, t) in [(0u8, 1u64), (1, 2)] {
        if let Op::Push(s) = push(k, 1, t) {
            let _ = wb.push(s.build());
        }
    }
    let r = run_now(wb.flush());
    if r.is_err() && wb.pending_count() == 0 {
        hits.push("WriteBuffer::flush (put failed)".to_string());
    }
    if hits.is_empty() {
        None
    } else {
        Some(format!(
            "flush returns Err and pending_count() is 0 (2 accepted updates gone) when this call fails once: {}",
            hits.join("; ")
        ))
    }
}

/// KF-C12-02: two flushed segments, a compaction whose read of the first segment fails once.
fn kf02_case() -> (Workload, Vec<(usize, Fault)>) {
    let w = plain_workload(vec![push(0, 1, 1), Op::Flush, push(1, 2, 2), Op::Flush, Op::Compact]);
    let base = run(&w.ops, &w, &[]);
    let j = base
        .store
        .calls()
        .iter()
        .find(|c| c.op == OpKind::Get && c.key.contains("/segments/"))
        .map(|c| c.idx)
        .unwrap_or(usize::MAX);
    (w, vec![(j, Fault::Fail)])
}

fn main() {
    run_with_filtered_stderr("C12");
    let args = vcore::parse_args();
    let s = Session::new(
        "C12",
        Level::FaultEnumeration,
        "generated workloads (up to 25 ops) built from chunks: usually 2-3 warm-up batches '1-3 pushes + flush', then batches, compact, compact_if_needed, flush_if_due, checkpoint (create_checkpoint + Manifest::compact_segments + save), reopen, lone pushes/flushes; \
         update profiles: mixed (4 string + 2 hash keys, sets/expiries/deletes/hash fields), delete-heavy on two string keys (whole segments end all-tombstone), padded values (segments above the size target); 3 replicas, colliding Lamport times 1..30; \
         compaction configs min 1-3 / max 2-5 segments per compaction, max_segments 2-4, target size 300 B or 1 MiB, tombstone_ttl in {0, 10, 50 ms, 1 h, practically infinite}, compactor clock production-like (epoch ms) or simulated (0..200 ms); should_flush count threshold 1-3 or 200; backpressure threshold two updates or 16 MiB. \
         Per workload the fault-free run fixes the store-call sequence (its branches of compact()/flush()/open are labelled in the evidence); \
         then (a) every crash position: the image after each call and inside each put (header/footer/quartile prefixes in quick, every byte prefix in thorough); \
         (b) a restart on every such boundary image (and on a half-written put) that executes the rest of the workload, its boundaries being crash positions again; \
         (c) every single transient failure (each call failing once; puts also failing after a half-written object) with every later call boundary of that run as a crash position; \
         (d) thorough: every pair of failures; every get additionally returns once a corrupted (one byte ^0xFF at the middle) and once a truncated (half) object with the stored object intact. \
         write_buffer: generated push/flush sequences on a shared Arc<WriteBuffer> where 0..3 pushes arrive while flush() is suspended in front of its put; every flush's put succeeding / failing / failing after half the object (thorough: pairs). \
         non-trivial = the fault-free run has >= 2 successful flushes (so positions between a segment put and the manifest rename, \
         and inside compaction when it ran, are enumerated), distinct by (store-call sequence, number of updates); write_buffer: some flush failed while updates had been pushed during its store call, distinct by the op list; \
         interleaved: after a generated sequential history, flush() of a generated batch of 1-3 updates || Compactor::compact() as two tasks preempted at store calls, every interleaving; non-trivial = the compaction gets as far as publishing a manifest and some schedule places that publication between the flush's temp put and its rename, distinct by (store-call sequence of the first schedule, batch size). \
         Injected failures carry one generated ErrorKind per workload (Other 3/8, else one of 8 other kinds)",
        &args,
    );
    s.assume("fault model: a store call completes, or fails with an error (a put possibly after storing a prefix of its payload), or the process dies during it (a put leaves a prefix under its key — also over an existing object; rename and delete are atomic). A put that RETURNS Ok has stored all its bytes: 'short write reported as success' (modelled by the in-tree SimulatedObjectStore) is outside the domain");
    s.assume("third outcome per call: the operation TAKES EFFECT and still reports an error (timeout after commit): put = object fully stored + error; delete = object gone + error; rename = destination written, source still present + error (copy-then-delete as in the in-tree S3 store with the delete failing)");
    s.assume("fs_conformance / fs_workloads run on the real LocalFsObjectStore in scratch directories under <VERIF_ROOT>/.work/c12-fs (created and removed per case); InMemoryObjectStore is the reference semantics for the differential check; object timestamps are not compared");
    s.assume("injected errors carry one generated ErrorKind per workload: Other (as SimulatedObjectStore's), TimedOut, Interrupted, ConnectionReset, PermissionDenied, UnexpectedEof, WouldBlock, AlreadyExists or InvalidData. NotFound is never INJECTED: for this API it is an answer ('no such object') that load_or_create and compact() are documented to act on, so a store giving it for an existing object would be lying rather than failing; truthful NotFound answers (rename of a temp object the other writer has moved away) occur in the `interleaved` check");
    s.assume("interleaved: the persistence owner and the compactor are separate tasks on one prefix (integration.rs::start_workers), each store call is atomic, and a task is preempted only at store calls; one flush and one compact() overlap, a failed flush is retried sequentially afterwards. Discrepancies that follow from the two writers' unsynchronised read-modify-write of the manifest are C13's open finding KF-C13-04 and are attributed to it only under the narrow rule in the check's description");
    s.assume("tombstone garbage collection is C13's subject: a confirmed LWW update may be absent from the recovered state iff a compaction had started and a confirmed tombstone of the same key with a stamp >= the update's is droppable by the implementation's rule (stamp.time < compactor_now_ms - ttl_ms); under the simulated clock that is accepted unless a client-visible value of the key came back (then KF-C13-03), under the production-like clock it is counted under KF-C13-02");
    s.assume("the Checkpoint op snapshots what a node recovered from the current store would hold (computed by the harness on a copy of the image) and covers every segment the manifest lists; each checkpoint object gets its own key (production keys them by wall-clock ms)");
    s.assume("recovered state = fold of RecoveredState as ReplicatedShardedState::apply_recovered_state does it (checkpoint values, then merge per delta in order); containment = merging the update changes nothing in the peer view (vcore::proj, outer stamp's replica id masked)");
    s.assume("updates under one key have one CRDT type and distinct (time, replica) stamps");
    s.assume("Reopen models a process restart without flush: updates still buffered at that moment are not claimed by anything");

    s.probe(
        "KF-C12-01",
        json!({"ops": ["push s0", "push s1", "flush"], "fault": "any one of the flush's store calls (get manifest, put segment, put manifest.tmp, rename) fails once"}),
        probe_kf01,
    );
    s.probe(
        "KF-C12-02",
        json!({"ops": ["push s0", "flush", "push s1", "flush", "compact"], "fault": "the compaction's get of segment-00000000 fails once"}),
        || {
            let (w, faults) = kf02_case();
            let r = run(&w.ops, &w, &faults);
            let rec = recover_image(&r.store.image()).ok()?;
            let compact_ok = r.compacts.first().map(|c| c.ok).unwrap_or(false);
            match missing_confirmed(&r, r.store.call_count(), &rec.state) {
                Some((_, d)) if compact_ok => Some(format!(
                    "compact() returns Ok after one transient get failure, removes the unread segment from the manifest and deletes it: confirmed update {} is not recovered",
                    show_delta(&d)
                )),
                _ => None,
            }
        },
    );

    s.describe_check(
        "large_values",
        "enumerated size classes above every generated workload: one update of 64 KiB+1 / 1 MiB+1 / 4 MiB+1 / 16 MiB+1 (thorough: 64 MiB+1) payload bytes - a long string, or a hash of bytes/48 fields - at each of three positions between small updates, through StreamingPersistence (three confirmed flushes, recovery after each) and three Compactor passes (recovery after each): recovery succeeds and returns exactly the merge of the confirmed updates; a push/flush that refuses the update with an error is a clean rejection (counted)",
    );
    s.run_enumerated("large_values", big::cases(s.thorough()).into_iter(), big::check);
    s.describe_check(
        "workloads",
        "per workload: crash images of the fault-free run (boundaries + inside puts), then one run per (call, failure kind) with its crash images from the failing call on; thorough: pairs",
    );
    s.run_cases(
        "workloads",
        s.scale(1_200, 24_000),
        || workload(if s.thorough() { 24 } else { 26 }),
        check_workload,
    );
    s.describe_check(
        "write_buffer",
        "WriteBuffer on a shared Arc: generated push / flush sequences where 0..3 pushes arrive while flush() is suspended in front of its put (gated store); every flush's put succeeding / failing / failing after half the object (thorough: pairs); pending_count after each flush, read-back of every successfully written segment, every accepted update persisted after a closing flush",
    );
    s.run_cases(
        "write_buffer",
        s.scale(10_000, 1_000_000),
        || {
            let op = prop_oneof![
                3 => delta_spec().prop_map(wb::WbOp::Push),
                2 => proptest::collection::vec(delta_spec(), 0..4).prop_map(|during| wb::WbOp::Flush { during }),
                1 => (proptest::collection::vec(delta_spec(), 1..3), proptest::collection::vec(delta_spec(), 0..2))
                    .prop_map(|(between, during_b)| wb::WbOp::Overlap { between, during_b }),
            ];
            proptest::collection::vec(op, 2..10).prop_map(|ops| wb::WbCase { ops })
        },
        wb::check,
    );
    s.describe_check(
        "fs_conformance",
        "differential: generated sequences of put (shorter / longer / equal overwrites), get, exists, head, rename (also over an existing object), delete, list (9 prefixes) on 8 keys, executed on LocalFsObjectStore (fresh directory under .work/c12-fs, removed per case) and on InMemoryObjectStore; every answer must be identical, and every key must read back identically at the end",
    );
    s.run_cases(
        "fs_conformance",
        s.scale(4_000, 400_000),
        || {
            let op = prop_oneof![
                6 => (any::<u8>(), prop_oneof![Just(0u16), 1u16..40, 40u16..700], any::<u8>()).prop_map(|(key, len, fill)| fs::FsOp::Put { key, len, fill }),
                3 => any::<u8>().prop_map(|key| fs::FsOp::Get { key }),
                1 => any::<u8>().prop_map(|key| fs::FsOp::Exists { key }),
                1 => any::<u8>().prop_map(|key| fs::FsOp::Head { key }),
                2 => (any::<u8>(), any::<u8>()).prop_map(|(from, to)| fs::FsOp::Rename { from, to }),
                1 => any::<u8>().prop_map(|key| fs::FsOp::Delete { key }),
                2 => any::<u8>().prop_map(|prefix| fs::FsOp::List { prefix }),
            ];
            proptest::collection::vec(op, 2..30).prop_map(|ops| fs::FsCase { ops })
        },
        fs::check_conformance,
    );
    s.describe_check(
        "fs_workloads",
        "workloads (push / flush / compact / reopen, <= 14 ops) on StreamingPersistence + Compactor over LocalFsObjectStore behind a fault layer: fault-free, then every call failing once (without effect; puts also half-written; puts, renames, deletes also after the effect); after every op the directory must recover through a plain LocalFs store, the manifest must name only valid objects, confirmed updates must be there",
    );
    s.run_cases("fs_workloads", s.scale(100, 10_000), || workload(14), fs::check_fs_workload);
    s.describe_check(
        "interleaved",
        "flush() of a generated batch and Compactor::compact() (own ManifestManager, shared temp key, as integration.rs wires them) as two hand-polled tasks over the gated store, after a generated sequential history: EVERY interleaving of their store calls, then a closing flush; every call boundary of every schedule is a crash position (same image oracle as `workloads`); pending_count after a failed flush. Truthful store: the only errors are genuine answers such as NotFound for a rename whose source the other writer renamed away. A discrepancy is attributed to the open KF-C13-04 only if no operation carried on / returned Ok after one of its own put/rename calls failed AND a stale-snapshot publication, a foreign temp object renamed into place or a segment key written by both writers precedes the crash position",
    );
    s.run_cases(
        "interleaved",
        s.scale(60, 6_000),
        || {
            (workload(12), proptest::collection::vec(delta_spec(), 1..4)).prop_map(|(w, batch)| inter::InterCase {
                w,
                batch,
                schedule: None,
            })
        },
        inter::check_inter,
    );
    fs::cleanup_root();
    s.finish();
}
