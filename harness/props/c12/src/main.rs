//! C12 — Streaming persistence is crash-consistent at every step, loses nothing confirmed.
//!
//! Per generated workload of push / flush / compact / (re)open on `StreamingPersistence` +
//! `Compactor` over a `TraceObjectStore` (store.rs):
//!
//!   1. the fault-free run fixes the sequence of store calls;
//!   2. EVERY crash position is examined: the store image after each call, and inside each put
//!      (the key holds a prefix of the payload; rename/delete are atomic);
//!   3. EVERY single transient failure is injected (each call failing once; a put fails both
//!      cleanly and after a partial write) and the workload re-run with the process alive;
//!      every call boundary of that run is again a crash position; thorough: pairs of failures.
//!
//! Oracle per crash image: `RecoveryManager::recover()` succeeds; every object the manifest
//! names exists and passes open+validate; the folded recovered state contains (merge order)
//! every update of every flush that had returned Ok. Oracle per failure run: after a failed
//! flush `pending_count()` still accounts for the batch; at the end (after a final flush that
//! succeeds) every accepted update that was not abandoned by a restart is recovered.

mod model;
mod store;

use model::*;
use proptest::prelude::*;
use redis_sim::replication::state::ReplicationDelta;
use redis_sim::streaming::{
    CompactionConfig, Compactor, ManifestManager, SegmentReader, SimulatedClock, StreamingPersistence,
    WriteBuffer, WriteBufferConfig,
};
use serde::{Deserialize, Serialize};
use serde_json::json;
use std::sync::Arc;
use std::time::Duration;
use store::*;
use vcore::time::VerifTime;
use vcore::{CaseCtx, Level, Session};

#[derive(Clone, Debug, Serialize, Deserialize)]
enum Op {
    Push(DeltaSpec),
    Flush,
    Compact,
    /// process restart without a flush: the buffer is legitimately gone, a new
    /// `StreamingPersistence` is opened on the same store
    Reopen,
}

#[derive(Clone, Debug, Serialize, Deserialize)]
struct Workload {
    ops: Vec<Op>,
    min_seg: u8,
    max_seg: u8,
    /// target_segment_size = 300 bytes (bigger segments are skipped by compaction) or 1 MiB
    small_target: bool,
}

fn wb_config() -> WriteBufferConfig {
    WriteBufferConfig {
        flush_interval: Duration::from_secs(3600),
        max_size_bytes: 1 << 20,
        max_deltas: 100_000,
        backpressure_threshold_bytes: 1 << 24,
        compression_enabled: false,
    }
}

fn comp_config(w: &Workload) -> CompactionConfig {
    CompactionConfig {
        target_segment_size: if w.small_target { 300 } else { 1 << 20 },
        max_segments: 2,
        min_segments_to_compact: w.min_seg.max(1) as usize,
        max_segments_per_compaction: w.max_seg.max(w.min_seg).max(1) as usize,
        // tombstone GC is C13's subject: here the compactor's clock stands at 0, so the cutoff
        // is 0 and no tombstone is ever older than it
        tombstone_ttl: Duration::from_secs(3600),
        compression_enabled: false,
    }
}

type Persistence = StreamingPersistence<TraceObjectStore, SimulatedClock>;

fn open(store: &Arc<TraceObjectStore>) -> Result<Persistence, String> {
    run_now(StreamingPersistence::with_clock(
        store.clone(),
        PREFIX.to_string(),
        REPLICA,
        wb_config(),
        SimulatedClock::new(0),
    ))
    .map_err(|e| e.to_string())
}

struct FlushEv {
    op_idx: usize,
    /// indices into RunOut::deltas
    batch: Vec<usize>,
    ok: bool,
    err: String,
    calls_at_return: usize,
    expected_pending: usize,
    observed_pending: usize,
    seg_key: Option<String>,
}

struct CompactEv {
    first_call: usize,
    calls_at_return: usize,
    ok: bool,
}

struct RunOut {
    store: TraceObjectStore,
    /// updates confirmed by a previous incarnation of the process (restart-after-crash runs)
    pre_confirmed: Vec<ReplicationDelta>,
    /// (global op index, number of store calls made before the op started)
    op_first_call: Vec<(usize, usize)>,
    deltas: Vec<ReplicationDelta>,
    flushes: Vec<FlushEv>,
    compacts: Vec<CompactEv>,
    /// things that are wrong whatever the finding list says
    anomalies: Vec<String>,
    /// accepted updates still in the buffer at the end although the final flushes were tried
    unflushed_at_end: usize,
}

/// Execute the workload with the process alive throughout; `faults` are transient failures by
/// global call index. A final flush (retried) closes the workload.
fn run(ops: &[Op], w: &Workload, faults: &[(usize, Fault)]) -> RunOut {
    run_from(Image::new(), ops, 0, Vec::new(), w, faults)
}

/// The same on an existing store image: a new process started after a crash executes
/// `ops` (numbered from `op_offset`); `pre_confirmed` are the updates whose flush had returned
/// Ok before the crash.
fn run_from(
    initial: Image,
    ops: &[Op],
    op_offset: usize,
    pre_confirmed: Vec<ReplicationDelta>,
    w: &Workload,
    faults: &[(usize, Fault)],
) -> RunOut {
    let store = TraceObjectStore::from_image(initial);
    store.set_faults(faults);
    let arc = Arc::new(store.clone());
    let mut out = RunOut {
        store: store.clone(),
        pre_confirmed,
        op_first_call: Vec::new(),
        deltas: Vec::new(),
        flushes: Vec::new(),
        compacts: Vec::new(),
        anomalies: Vec::new(),
        unflushed_at_end: 0,
    };
    let reopen = |out: &mut RunOut| -> Option<Persistence> {
        for _ in 0..=faults.len() {
            if let Ok(p) = open(&arc) {
                return Some(p);
            }
        }
        out.anomalies.push(format!(
            "StreamingPersistence::with_clock failed {} times in a row although only {} transient failures were injected",
            faults.len() + 1,
            faults.len()
        ));
        None
    };
    let Some(mut p) = reopen(&mut out) else {
        return out;
    };
    // model: accepted and not yet confirmed by a successful flush (indices into out.deltas)
    let mut pending: Vec<usize> = Vec::new();

    fn do_flush(p: &mut Persistence, pending: &mut Vec<usize>, out: &mut RunOut, op_idx: usize) {
        if pending.is_empty() && p.pending_count() == 0 {
            return;
        }
        let r = run_now(p.flush());
        let calls_at_return = out.store.call_count();
        let expected = pending.len();
        match r {
            Ok(res) => {
                if res.deltas_flushed != expected {
                    out.anomalies.push(format!(
                        "op #{} flush returned Ok with deltas_flushed = {} but {} accepted updates were pending",
                        op_idx, res.deltas_flushed, expected
                    ));
                }
                out.flushes.push(FlushEv {
                    op_idx,
                    batch: std::mem::take(pending),
                    ok: true,
                    err: String::new(),
                    calls_at_return,
                    expected_pending: expected,
                    observed_pending: p.pending_count(),
                    seg_key: res.segment.map(|s| s.key),
                });
            }
            Err(e) => {
                let observed = p.pending_count();
                let batch = if observed == expected {
                    Vec::new() // still pending, nothing lost
                } else {
                    // re-synchronise the model with the implementation: those updates are gone
                    std::mem::take(pending)
                };
                if observed != expected && observed != 0 {
                    out.anomalies.push(format!(
                        "op #{} flush failed ({}) and pending_count() = {} is neither the {} accepted updates nor 0",
                        op_idx, e, observed, expected
                    ));
                }
                out.flushes.push(FlushEv {
                    op_idx,
                    batch,
                    ok: false,
                    err: e.to_string(),
                    calls_at_return,
                    expected_pending: expected,
                    observed_pending: observed,
                    seg_key: None,
                });
            }
        }
    }

    for (k, op) in ops.iter().enumerate() {
        let op_idx = op_offset + k;
        out.op_first_call.push((op_idx, store.call_count()));
        match op {
            Op::Push(spec) => {
                let d = spec.build();
                match p.push(d.clone()) {
                    Ok(()) => {
                        out.deltas.push(d);
                        pending.push(out.deltas.len() - 1);
                    }
                    Err(e) => out.anomalies.push(format!("op #{} push refused: {}", op_idx, e)),
                }
            }
            Op::Flush => do_flush(&mut p, &mut pending, &mut out, op_idx),
            Op::Compact => {
                let mm = ManifestManager::new(store.clone(), PREFIX);
                let mut c = Compactor::with_time_source(
                    arc.clone(),
                    PREFIX.to_string(),
                    mm,
                    comp_config(w),
                    VerifTime::new(0),
                );
                let first_call = store.call_count();
                let r = run_now(c.compact());
                out.compacts.push(CompactEv {
                    first_call,
                    calls_at_return: store.call_count(),
                    ok: r.is_ok(),
                });
            }
            Op::Reopen => {
                drop(p);
                pending.clear();
                match reopen(&mut out) {
                    Some(np) => p = np,
                    None => return out,
                }
            }
        }
    }
    // closing flush: transient failures are over after at most faults.len() attempts
    out.op_first_call.push((op_offset + ops.len(), store.call_count()));
    for _ in 0..=faults.len() {
        if pending.is_empty() {
            break;
        }
        do_flush(&mut p, &mut pending, &mut out, op_offset + ops.len());
    }
    out.unflushed_at_end = pending.len();
    out
}

/// Prefix lengths at which a crash inside a put of `len` bytes is examined.
fn prefixes(len: usize, all: bool) -> Vec<usize> {
    if all || len <= 48 {
        return (0..len).collect();
    }
    const H: usize = 40; // segment header
    const F: usize = 24; // segment footer
    let mut v = vec![
        0,
        1,
        2,
        H - 1,
        H,
        H + 1,
        len / 4,
        len / 2,
        (3 * len) / 4,
        len.saturating_sub(F + 1),
        len.saturating_sub(F),
        len.saturating_sub(F - 1),
        len - 2,
        len - 1,
    ];
    v.retain(|&p| p < len);
    v.sort();
    v.dedup();
    v
}

fn trace_text(r: &RunOut) -> String {
    let calls = r.store.calls();
    let mut s = String::new();
    for c in calls.iter().take(80) {
        s.push_str("      ");
        s.push_str(&c.short());
        s.push('\n');
    }
    if calls.len() > 80 {
        s.push_str(&format!("      … {} more calls\n", calls.len() - 80));
    }
    s
}

/// Which confirmed update is missing from `state`? (description of its flush, the update)
fn missing_confirmed(r: &RunOut, calls_done: usize, state: &State) -> Option<(String, ReplicationDelta)> {
    for d in &r.pre_confirmed {
        if !contains(state, d) {
            return Some(("a flush that returned Ok before the crash/restart".to_string(), d.clone()));
        }
    }
    for f in r.flushes.iter() {
        if !f.ok || f.calls_at_return > calls_done {
            continue;
        }
        for &di in &f.batch {
            if !contains(state, &r.deltas[di]) {
                return Some((
                    format!(
                        "the flush at op #{} (returned Ok after call #{}, segment {:?})",
                        f.op_idx,
                        f.calls_at_return.saturating_sub(1),
                        f.seg_key
                    ),
                    r.deltas[di].clone(),
                ));
            }
        }
    }
    None
}

/// KF-C12-02 matcher: an injected failing `get` of a segment object was issued by a compaction
/// that returned Ok, at or before the crash position, and the object it could not read held
/// the missing update.
fn matches_kf02(r: &RunOut, faults: &[(usize, Fault)], calls_done: usize, missing: &ReplicationDelta) -> bool {
    let calls = r.store.calls();
    faults.iter().any(|(j, _)| {
        let Some(c) = calls.get(*j) else { return false };
        if !(*j < calls_done && c.op == OpKind::Get && c.injected && c.key.contains("/segments/")) {
            return false;
        }
        if !r
            .compacts
            .iter()
            .any(|c| c.ok && c.first_call <= *j && *j < c.calls_at_return)
        {
            return false;
        }
        // the object that could not be read held the missing update (directly, or as the
        // output of an earlier compaction)
        let img = r.store.image_before(*j);
        let Some(data) = img.get(&c.key) else { return false };
        match SegmentReader::open(data).and_then(|rd| rd.read_all()) {
            Ok(ds) => contains(&fold(None, &ds), missing),
            Err(_) => false,
        }
    })
}

/// The oracle on one crash image. `calls_done` = number of store calls that completed.
fn check_image(
    r: &RunOut,
    faults: &[(usize, Fault)],
    img: &Image,
    calls_done: usize,
    what: &str,
    ctx: &mut CaseCtx<'_>,
) -> Result<(), String> {
    let rec = match recover_image(img) {
        Ok(rec) => rec,
        Err(f) => {
            return Err(format!(
                "crash {}: {}\n    injected failures: {:?}\n    store calls:\n{}",
                what,
                f,
                faults,
                trace_text(r)
            ))
        }
    };
    if let Some((which, d)) = missing_confirmed(r, calls_done, &rec.state) {
        if matches_kf02(r, faults, calls_done, &d) && ctx.tolerate("KF-C12-02") {
            return Ok(());
        }
        return Err(format!(
            "crash {}: recovery succeeds but update {} of {} is not in the recovered state (recovered value of the key: {})\n    injected failures: {:?}\n    manifest: {:?}\n    store calls:\n{}",
            what,
            show_delta(&d),
            which,
            peer_opt(rec.state.get(&d.key)),
            faults,
            rec.manifest.segments.iter().map(|s| s.id).collect::<Vec<_>>(),
            trace_text(r)
        ));
    }
    Ok(())
}

/// All oracles on one run. Crash positions before `from_call` were already examined on the
/// run this one is an extension of (identical prefix) and are skipped.
fn check_run(
    r: &RunOut,
    faults: &[(usize, Fault)],
    from_call: usize,
    partial_puts: Option<bool>,
    ctx: &mut CaseCtx<'_>,
) -> Result<u64, String> {
    if let Some(a) = r.anomalies.first() {
        return Err(format!("{}\n    injected failures: {:?}\n    store calls:\n{}", a, faults, trace_text(r)));
    }
    // process keeps running: a failed flush must not make accepted updates disappear
    for f in &r.flushes {
        if !f.ok && faults.is_empty() {
            return Err(format!(
                "flush at op #{} failed without any injected failure: {}\n    store calls:\n{}",
                f.op_idx,
                f.err,
                trace_text(r)
            ));
        }
        if !f.ok && f.observed_pending != f.expected_pending {
            // KF-C12-01 matcher: flush returned Err and the buffer is empty although the
            // batch was never persisted
            if f.observed_pending == 0 && f.expected_pending > 0 && ctx.tolerate("KF-C12-01") {
                continue;
            }
            return Err(format!(
                "flush at op #{} failed ({}) and pending_count() dropped from {} to {}: the accepted updates [{}] are neither persisted nor pending\n    injected failures: {:?}\n    store calls:\n{}",
                f.op_idx,
                f.err,
                f.expected_pending,
                f.observed_pending,
                f.batch.iter().take(4).map(|&d| show_delta(&r.deltas[d])).collect::<Vec<_>>().join(", "),
                faults,
                trace_text(r)
            ));
        }
    }
    if r.unflushed_at_end != 0 {
        return Err(format!(
            "{} accepted updates are still unflushed after {} closing flush attempts with {} transient failures\n    store calls:\n{}",
            r.unflushed_at_end,
            faults.len() + 1,
            faults.len(),
            trace_text(r)
        ));
    }
    let calls = r.store.calls();
    let n = calls.len();
    let mut images = 0u64;
    if from_call == 0 {
        check_image(r, faults, &r.store.image_before(0), 0, "before the first call", ctx)?;
        images += 1;
    }
    for i in from_call..n {
        if let (Some(all), OpKind::Put) = (partial_puts, calls[i].op) {
            let len = calls[i].data.as_ref().map(|d| d.len()).unwrap_or(0);
            for p in prefixes(len, all) {
                let img = r.store.image_inside_put(i, p).expect("put");
                check_image(
                    r,
                    faults,
                    &img,
                    i,
                    &format!("inside call {} after {} of {} bytes", calls[i].short(), p, len),
                    ctx,
                )?;
                images += 1;
            }
        }
        check_image(
            r,
            faults,
            &r.store.image_after(i),
            i + 1,
            &format!("after call {}", calls[i].short()),
            ctx,
        )?;
        images += 1;
    }
    Ok(images)
}

/// The ops actually executed. While KF-C13-01 is open (compaction keeps one delta per key
/// instead of merging) workloads that compact are restricted to updates on which keep-latest
/// and merge agree: plain LWW sets/deletes with per-key unique times. Returns whether the
/// restriction changed anything.
fn prepare(w: &Workload, restrict: bool) -> (Vec<Op>, bool) {
    let mut ops = w.ops.clone();
    let original = ops.clone();
    let compacts = ops.iter().any(|o| matches!(o, Op::Compact));
    let restrict = restrict && compacts;
    if restrict {
        for o in ops.iter_mut() {
            if let Op::Push(s) = o {
                match s.action.clone() {
                    Action::SetEx { val, .. } => s.action = Action::Set { val, pad: 0 },
                    Action::HSet { val, .. } | Action::HSetEx { val, .. } => {
                        s.action = Action::Set { val, pad: 0 }
                    }
                    Action::HSet2 { v1, .. } => s.action = Action::Set { val: v1, pad: 0 },
                    Action::HDel { .. } => s.action = Action::Del,
                    _ => {}
                }
            }
        }
    }
    uniquify(
        ops.iter_mut().filter_map(|o| match o {
            Op::Push(s) => Some(s),
            _ => None,
        }),
        restrict,
    );
    let changed = if restrict {
        // compare with what the unrestricted preparation would have produced
        let mut plain = original;
        uniquify(
            plain.iter_mut().filter_map(|o| match o {
                Op::Push(s) => Some(s),
                _ => None,
            }),
            false,
        );
        serde_json::to_string(&plain).ok() != serde_json::to_string(&ops).ok()
    } else {
        false
    };
    (ops, changed)
}

fn fault_variants(op: OpKind) -> Vec<Fault> {
    match op {
        OpKind::Put => vec![Fault::Fail, Fault::PartialThenFail(500)],
        _ => vec![Fault::Fail],
    }
}

fn check_workload(w: &Workload, ctx: &mut CaseCtx<'_>) -> Result<(), String> {
    let thorough = ctx.tier() == vcore::Tier::Thorough;
    let (ops, restricted) = prepare(w, ctx.finding_open("KF-C13-01"));
    if restricted {
        ctx.tolerate("KF-C13-01");
    }

    // 1. fault-free run
    let base = run(&ops, w, &[]);
    for f in &base.flushes {
        if !f.ok {
            return Err(format!(
                "fault-free run: flush at op #{} failed: {}\n{}",
                f.op_idx,
                f.err,
                trace_text(&base)
            ));
        }
    }
    let calls = base.store.calls();
    let n0 = calls.len();
    let ok_flushes = base.flushes.iter().filter(|f| f.ok).count();
    let compacted = base.compacts.iter().any(|c| c.ok);
    if ok_flushes >= 2 {
        ctx.label("flushes>=2");
    }
    if compacted {
        ctx.label("compaction_ok");
    }
    if ops.iter().any(|o| matches!(o, Op::Reopen)) {
        ctx.label("reopen");
    }
    if ok_flushes >= 2 {
        // NT: with >= 2 successful flushes the enumeration below necessarily contains crash
        // and fault positions between a segment put and its manifest rename (and inside
        // compaction when one ran)
        let sig: Vec<(OpKind, String)> = calls
            .iter()
            .map(|c| (c.op, c.key.rsplit('/').next().unwrap_or("").to_string()))
            .collect();
        ctx.nontrivial(&(sig, base.deltas.len()));
    }

    // 2. every crash position of the fault-free run
    let mut evals = check_run(&base, &[], 0, Some(thorough), ctx)?;

    // 2b. restart after the crash: a new process opens the crash image and executes the rest of
    //     the workload (orphan objects, a stale manifest.json.tmp and half-written objects are
    //     now part of its world); its own call boundaries are crash positions again
    let confirmed_before = |calls_done: usize| -> Vec<ReplicationDelta> {
        base.flushes
            .iter()
            .filter(|f| f.ok && f.calls_at_return <= calls_done)
            .flat_map(|f| f.batch.iter().map(|&d| base.deltas[d].clone()))
            .collect()
    };
    for i in 0..n0 {
        // the op during which call i was made dies with the process
        let next_op = base
            .op_first_call
            .iter()
            .filter(|(_, c)| *c <= i)
            .map(|(k, _)| *k + 1)
            .max()
            .unwrap_or(0)
            .min(ops.len());
        let mut images = vec![(base.store.image_after(i), i + 1)];
        if calls[i].op == OpKind::Put {
            let len = calls[i].data.as_ref().map(|d| d.len()).unwrap_or(0);
            images.push((base.store.image_inside_put(i, len / 2).expect("put"), i));
        }
        for (img, calls_done) in images {
            let r = run_from(img, &ops[next_op..], next_op, confirmed_before(calls_done), w, &[]);
            evals += 1 + check_run(&r, &[], 0, None, ctx).map_err(|e| {
                format!(
                    "after a crash {} call {} of the fault-free run and a restart that executes ops #{}..: {}",
                    if calls_done == i { "inside" } else { "after" },
                    calls[i].short(),
                    next_op,
                    e
                )
            })?;
        }
    }

    // 3. every single transient failure; every call boundary from the failing call on is a
    //    crash position again
    for i in 0..n0 {
        for fault in fault_variants(calls[i].op) {
            let faults = [(i, fault)];
            let r = run(&ops, w, &faults);
            evals += 1 + check_run(&r, &faults, i, None, ctx)?;
            if thorough && fault == Fault::Fail {
                // pairs: a second failure at every later call of *that* run
                let n1 = r.store.call_count();
                for j in (i + 1)..n1 {
                    let faults2 = [(i, fault), (j, Fault::Fail)];
                    let r2 = run(&ops, w, &faults2);
                    evals += 1 + check_run(&r2, &faults2, j, None, ctx)?;
                }
            }
        }
    }
    ctx.add_evaluations(evals);
    Ok(())
}

// ---------------------------------------------------------------------------------------
// generator
// ---------------------------------------------------------------------------------------

fn action() -> impl Strategy<Value = Action> {
    prop_oneof![
        5 => (0u8..6, prop_oneof![4 => Just(0u16), 1 => 40u16..260]).prop_map(|(val, pad)| Action::Set { val, pad }),
        1 => (0u8..6, 1000u32..5000).prop_map(|(val, expiry)| Action::SetEx { val, expiry }),
        3 => Just(Action::Del),
        2 => (0u8..4, 0u8..6).prop_map(|(field, val)| Action::HSet { field, val }),
        1 => (0u8..4, 0u8..6, 0u8..4, 0u8..6).prop_map(|(f1, v1, f2, v2)| Action::HSet2 { f1, v1, f2, v2 }),
        1 => (0u8..4).prop_map(|field| Action::HDel { field }),
        1 => (0u8..4, 0u8..6, 1000u32..5000).prop_map(|(field, val, expiry)| Action::HSetEx { field, val, expiry }),
    ]
}

fn delta_spec() -> impl Strategy<Value = DeltaSpec> {
    (0u8..4, action(), 1u8..4, 1u64..30).prop_map(|(key, action, replica, time)| DeltaSpec {
        key,
        action,
        replica,
        time,
    })
}

fn workload(max_ops: usize) -> impl Strategy<Value = Workload> {
    let op = prop_oneof![
        12 => delta_spec().prop_map(Op::Push),
        8 => Just(Op::Flush),
        4 => Just(Op::Compact),
        1 => Just(Op::Reopen),
    ];
    (
        proptest::collection::vec(op, 3..max_ops),
        prop_oneof![3 => Just(2u8), 1 => Just(3u8)],
        2u8..6,
        prop_oneof![2 => Just(false), 1 => Just(true)],
    )
        .prop_map(|(ops, min_seg, max_seg, small_target)| Workload {
            ops,
            min_seg,
            max_seg,
            small_target,
        })
}

// ---------------------------------------------------------------------------------------
// probes
// ---------------------------------------------------------------------------------------

fn push(key: u8, val: u8, time: u64) -> Op {
    Op::Push(DeltaSpec {
        key,
        action: Action::Set { val, pad: 0 },
        replica: 1,
        time,
    })
}

fn plain_workload(ops: Vec<Op>) -> Workload {
    Workload {
        ops,
        min_seg: 2,
        max_seg: 5,
        small_target: false,
    }
}

/// KF-C12-01: one push, one flush, each of the flush's four store calls failing once.
fn probe_kf01() -> Option<String> {
    let w = plain_workload(vec![push(0, 1, 1), push(1, 2, 2), Op::Flush]);
    // call 0 is the manifest load of open(); the flush makes calls 1..=4
    let mut hits = Vec::new();
    for i in 1..=4usize {
        let r = run(&w.ops, &w, &[(i, Fault::Fail)]);
        let f = r.flushes.first()?;
        if !f.ok && f.expected_pending == 2 && f.observed_pending == 0 {
            hits.push(format!("{}", r.store.calls()[i].short()));
        }
    }
    // the same pattern in WriteBuffer::flush
    let st = TraceObjectStore::new();
    st.set_faults(&[(0, Fault::Fail)]);
    let wb = WriteBuffer::new(Arc::new(st.clone()), "wb".to_string(), wb_config());
    for (k, t) in [(0u8, 1u64), (1, 2)] {
        if let Op::Push(s) = push(k, 1, t) {
            let _ = wb.push(s.build());
        }
    }
    let r = run_now(wb.flush());
    if r.is_err() && wb.pending_count() == 0 {
        hits.push("WriteBuffer::flush (put failed)".to_string());
    }
    if hits.is_empty() {
        None
    } else {
        Some(format!(
            "flush returns Err and pending_count() is 0 (2 accepted updates gone) when this call fails once: {}",
            hits.join("; ")
        ))
    }
}

/// KF-C12-02: two flushed segments, a compaction whose read of the first segment fails once.
fn kf02_case() -> (Workload, Vec<(usize, Fault)>) {
    let w = plain_workload(vec![push(0, 1, 1), Op::Flush, push(1, 2, 2), Op::Flush, Op::Compact]);
    let base = run(&w.ops, &w, &[]);
    let j = base
        .store
        .calls()
        .iter()
        .find(|c| c.op == OpKind::Get && c.key.contains("/segments/"))
        .map(|c| c.idx)
        .unwrap_or(usize::MAX);
    (w, vec![(j, Fault::Fail)])
}

fn main() {
    run_with_filtered_stderr("C12");
    let args = vcore::parse_args();
    let s = Session::new(
        "C12",
        Level::FaultEnumeration,
        "generated workloads of push/flush/compact/reopen (3..25 ops, weights 12:8:4:1; 4 string + 2 hash keys, 3 replicas, colliding Lamport times; \
         compaction configs min 2-3 / max 2-5 segments, target size 300 B or 1 MiB). Per workload the fault-free run fixes the store-call sequence; \
         then (a) every crash position: the image after each call and inside each put (header/footer/quartile prefixes in quick, every byte prefix in thorough); \
         (b) a restart on every such boundary image (and on a half-written put) that executes the rest of the workload, its boundaries being crash positions again; \
         (c) every single transient failure (each call failing once; puts also failing after a half-written object) with every later call boundary of that run as a crash position; \
         (d) thorough: every pair of failures. non-trivial = the fault-free run has >= 2 successful flushes (so positions between a segment put and the manifest rename, \
         and inside compaction when it ran, are enumerated); distinct by (store-call sequence, number of updates)",
        &args,
    );
    s.assume("fault model: a store call completes, or fails with an error (a put possibly after storing a prefix of its payload), or the process dies during it (a put leaves a prefix under its key — also over an existing object; rename and delete are atomic). A put that RETURNS Ok has stored all its bytes: 'short write reported as success' (modelled by the in-tree SimulatedObjectStore) is outside the domain");
    s.assume("injected errors are ErrorKind::Other (as SimulatedObjectStore's); a transient NotFound on the manifest (which load_or_create treats as 'no manifest yet') is not injected");
    s.assume("tombstone garbage collection is switched off (compactor clock 0 => cutoff 0); it is C13's subject");
    s.assume("recovered state = fold of RecoveredState as ReplicatedShardedState::apply_recovered_state does it (checkpoint values, then merge per delta in order); containment = merging the update changes nothing in the peer view (vcore::proj, outer stamp's replica id masked)");
    s.assume("updates under one key have one CRDT type and distinct (time, replica) stamps");
    s.assume("Reopen models a process restart without flush: updates still buffered at that moment are not claimed by anything");

    s.probe(
        "KF-C12-01",
        json!({"ops": ["push s0", "push s1", "flush"], "fault": "any one of the flush's store calls (get manifest, put segment, put manifest.tmp, rename) fails once"}),
        probe_kf01,
    );
    s.probe(
        "KF-C12-02",
        json!({"ops": ["push s0", "flush", "push s1", "flush", "compact"], "fault": "the compaction's get of segment-00000000 fails once"}),
        || {
            let (w, faults) = kf02_case();
            let r = run(&w.ops, &w, &faults);
            let rec = recover_image(&r.store.image()).ok()?;
            let compact_ok = r.compacts.first().map(|c| c.ok).unwrap_or(false);
            match missing_confirmed(&r, r.store.call_count(), &rec.state) {
                Some((_, d)) if compact_ok => Some(format!(
                    "compact() returns Ok after one transient get failure, removes the unread segment from the manifest and deletes it: confirmed update {} is not recovered",
                    show_delta(&d)
                )),
                _ => None,
            }
        },
    );

    s.describe_check(
        "workloads",
        "per workload: crash images of the fault-free run (boundaries + inside puts), then one run per (call, failure kind) with its crash images from the failing call on; thorough: pairs",
    );
    s.run_cases(
        "workloads",
        s.scale(3_000, 60_000),
        || workload(if s.thorough() { 24 } else { 26 }),
        check_workload,
    );
    s.finish();
}
