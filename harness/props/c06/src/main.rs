//! C06 — replicas converge: once updates are delivered, all replicas answer reads alike;
//! what a replica serves equals what its replication state says.
//!
//! Checks (DESIGN.md §3 C06, notes/C06.md):
//!   actor_programs  2–4 (thorough: 5) production `ReplicatedShardActor`s, a generated program
//!                   of client commands at chosen nodes interleaved with harness-owned network
//!                   actions on the multiset of in-flight deltas and clock ticks; verdicts at
//!                   Q1 (every delta delivered to every other node, only when nothing was
//!                   lost for good), Q2 (after two all-pairs rounds of full-state exchange
//!                   from `get_snapshot()`), D (after eviction beyond every TTL used).
//!   sim_programs    `MultiNodeSimulation` (in-tree simulator glue) with generated SET/DEL
//!                   programs, partitions, loss, healing, then full-state exchange.

mod coord;

use proptest::prelude::*;
use redis_sim::production::{ReplicatedShardActor, ReplicatedShardHandle};
use redis_sim::replication::{
    ConsistencyLevel, CrdtValue, LamportClock, ReplicaId, ReplicatedValue, ReplicationDelta,
};
use redis_sim::simulator::multi_node::MultiNodeSimulation;
use redis_sim::simulator::VirtualTime;
use serde::{Deserialize, Serialize};
use serde_json::json;
use std::collections::{BTreeMap, BTreeSet, HashMap};
use vcore::resp::{parse_zc, Reply};
use vcore::{CaseCtx, Level, Session};

const KF1: &str = "KF-C06-01"; // conditional SET that was a no-op still records a write
const KF2: &str = "KF-C06-02"; // a command that failed (error reply) still records a write
const KF3: &str = "KF-C06-03"; // DEL of a hash key: no tombstone
const KF4: &str = "KF-C06-04"; // expiry_ms not versioned with the value (assigned locally, merged Some-beats-None/max)
const KF5: &str = "KF-C06-05"; // relative TTL re-armed on every merge
const KF6: &str = "KF-C06-06"; // newer remote hash cannot replace a local string in the executor
const KF8: &str = "KF-C06-08"; // string<->hash type change: mismatch merge drops one side wholesale, older hash fields survive depending on order
const KF7: &str = "KF-C06-07"; // remote apply truncates expiry_ms to whole seconds (PX < 1000 -> SETEX 0 -> rejected)

type Stamp = (u64, u64);
fn stamp(c: &LamportClock) -> Stamp {
    (c.time, c.replica_id.0)
}

const KEYS: [&str; 4] = ["ka", "kb", "kc", "kd"];
const FIELDS: [&str; 3] = ["f1", "f2", "f3"];
const VALUES: [&str; 8] = ["v1", "v2", "v3", "abc", "5", "10", "-3", ""];

// ---------------------------------------------------------------------------------------
// case
// ---------------------------------------------------------------------------------------

#[derive(Clone, Debug, Serialize, Deserialize)]
enum Step {
    /// client command at a node
    Cmd { node: u8, argv: Vec<String> },
    /// deliver one in-flight delta (index as a fraction of the in-flight list: any order)
    Deliver { idx: u16 },
    /// put a second copy of an in-flight delta in flight
    Dup { idx: u16 },
    /// lose an in-flight delta
    Drop { idx: u16 },
    /// cut the link a-b: deltas delivered across it are lost
    Partition { a: u8, b: u8 },
    /// heal all links
    Heal,
    /// advance the clock of all nodes (each gets evict_expired(now))
    Tick { ms: u32 },
    /// ordinary traffic in bulk: the node SETs `n` fresh filler keys; every resulting delta is
    /// handed to every other node at once (a side channel that is never cut: the filler keys are
    /// not what the case is about). Makes the node's key table large and its clock advance by
    /// thousands of ticks between two commands on the keys under observation, as any busy
    /// node's would.
    Bulk { node: u8, n: u16 },
}

#[derive(Clone, Debug, Serialize, Deserialize)]
struct Case {
    nodes: u8,
    steps: Vec<Step>,
    /// loss followed by redelivery: lost deltas are sent again before Q1
    redeliver_lost: bool,
}

/// Generator profiles (the command grammar is the same, the pools differ):
///   0 free    every command on every key with every value: type flips, failing commands
///   1 typed   string commands on ka/kb, hash commands on kc/kd, numeric values, no invalid
///             expiry: commands rarely fail, but NX/XX, TTLs, DEL of hash keys remain
///   2 plain   typed, and no SET options, no DEL of hash keys, no GETSET
fn key_of(pool: &'static [usize]) -> BoxedStrategy<String> {
    (0usize..pool.len() * 2).prop_map(move |i| KEYS[pool[i % pool.len().max(1)].min(3)].to_string()).boxed()
}
fn str_key(profile: u8) -> BoxedStrategy<String> {
    if profile == 0 { key_of(&[0, 0, 1, 2, 3]) } else { key_of(&[0, 0, 1]) }
}
fn hash_key(profile: u8) -> BoxedStrategy<String> {
    if profile == 0 { key_of(&[0, 0, 1, 2, 3]) } else { key_of(&[2, 2, 3]) }
}
fn any_key(profile: u8) -> BoxedStrategy<String> {
    if profile == 2 { key_of(&[0, 0, 1]) } else { key_of(&[0, 0, 1, 2, 3]) }
}
fn val_s(profile: u8) -> BoxedStrategy<String> {
    if profile == 0 {
        (0usize..VALUES.len()).prop_map(|i| VALUES[i].to_string()).boxed()
    } else {
        prop_oneof![Just("5"), Just("10"), Just("-3"), Just("0"), Just("7")].prop_map(|s| s.to_string()).boxed()
    }
}
fn field_s() -> impl Strategy<Value = String> {
    (0usize..FIELDS.len()).prop_map(|i| FIELDS[i].to_string())
}
fn sv(parts: &[&str]) -> Vec<String> {
    parts.iter().map(|s| s.to_string()).collect()
}

/// One client command (argv).
fn cmd_strategy(profile: u8) -> BoxedStrategy<Vec<String>> {
    let w_opts = if profile == 2 { 0 } else { 6 };
    let w_invalid = if profile == 0 { 1 } else { 0 };
    let w_getset = if profile == 2 { 0 } else { 2 };
    let w_big = if profile == 0 { 1 } else { 0 };
    let set_opts = (
        prop_oneof![6 => Just(""), 2 => Just("NX"), 2 => Just("XX")],
        prop_oneof![
            6 => Just(Vec::<String>::new()),
            2 => (1u32..20).prop_map(|s| vec!["EX".to_string(), s.to_string()]),
            2 => (100u32..15000).prop_map(|s| vec!["PX".to_string(), s.to_string()]),
            1 => (1u32..15).prop_map(|s| vec!["PX".to_string(), (s * 1000).to_string()]),
            1 => Just(sv(&["KEEPTTL"])),
            w_invalid => prop_oneof![Just(sv(&["EX", "0"])), Just(sv(&["EX", "-1"])), Just(sv(&["PX", "0"]))],
        ],
        prop::bool::weighted(0.15),
    );
    let arms: Vec<(u32, BoxedStrategy<Vec<String>>)> = vec![
        // plain SET
        (10, (str_key(profile), val_s(profile)).prop_map(|(k, v)| vec!["SET".into(), k, v]).boxed()),
        // bare conditional SETs (often right after a DEL of the same key, here or remotely)
        (w_opts / 2, (str_key(profile), val_s(profile), prop_oneof![Just("NX"), Just("XX")])
            .prop_map(|(k, v, c)| vec!["SET".into(), k, v, c.to_string()]).boxed()),
        // SET with options
        (w_opts, (str_key(profile), val_s(profile), set_opts).prop_map(|(k, v, (cond, exp, get))| {
            let mut a = vec!["SET".to_string(), k, v];
            if !cond.is_empty() {
                a.push(cond.to_string());
            }
            a.extend(exp);
            if get {
                a.push("GET".into());
            }
            a
        }).boxed()),
        (4, any_key(profile).prop_map(|k| vec!["DEL".into(), k]).boxed()),
        (1, (any_key(profile), any_key(profile)).prop_map(|(k, k2)| vec!["DEL".into(), k, k2]).boxed()),
        (2, str_key(profile).prop_map(|k| vec!["INCR".into(), k]).boxed()),
        (1, str_key(profile).prop_map(|k| vec!["DECR".into(), k]).boxed()),
        (1, (str_key(profile), prop_oneof![3 => Just("7"), 3 => Just("-2"), w_big => Just("9223372036854775807")])
            .prop_map(|(k, n)| vec!["INCRBY".into(), k, n.to_string()]).boxed()),
        (1, (str_key(profile), Just("3")).prop_map(|(k, n)| vec!["DECRBY".into(), k, n.to_string()]).boxed()),
        (2, (str_key(profile), val_s(profile)).prop_map(|(k, v)| vec!["APPEND".into(), k, v]).boxed()),
        (w_getset, (str_key(profile), val_s(profile)).prop_map(|(k, v)| vec!["GETSET".into(), k, v]).boxed()),
        (6, (hash_key(profile), field_s(), val_s(profile)).prop_map(|(k, f, v)| vec!["HSET".into(), k, f, v]).boxed()),
        (2, (hash_key(profile), field_s(), val_s(profile), field_s(), val_s(profile))
            .prop_map(|(k, f, v, f2, v2)| vec!["HSET".into(), k, f, v, f2, v2]).boxed()),
        (3, (hash_key(profile), field_s()).prop_map(|(k, f)| vec!["HDEL".into(), k, f]).boxed()),
        (1, (hash_key(profile), field_s(), field_s()).prop_map(|(k, f, f2)| vec!["HDEL".into(), k, f, f2]).boxed()),
        (2, (hash_key(profile), field_s(), prop_oneof![Just("1"), Just("-4")])
            .prop_map(|(k, f, n)| vec!["HINCRBY".into(), k, f, n.to_string()]).boxed()),
        // reads interleaved with the writes (they reach the actor through the same `execute`
        // and must neither emit a delta nor change what is served)
        (3, (any_key(profile), prop_oneof![Just("GET"), Just("HGETALL"), Just("EXISTS"), Just("TYPE"), Just("TTL"), Just("STRLEN")])
            .prop_map(|(k, c)| vec![c.to_string(), k]).boxed()),
        (1, (any_key(profile), field_s()).prop_map(|(k, f)| vec!["HGET".into(), k, f]).boxed()),
    ];
    proptest::strategy::Union::new_weighted(arms.into_iter().filter(|(w, _)| *w > 0).collect())
    .boxed()
}

/// `tick_mode`: 0 no ticks; 1 sparse ticks of any length (1 ms .. 21 s); 2 dense short ticks, the
/// shape of the TTL manager (every shard is told the time about every 100 ms, whether or not it
/// holds a key with a TTL), so that a program contains many ticks before, between and after
/// the writes that carry a TTL.
fn step_strategy(profile: u8, lossy: bool, tick_mode: u8) -> impl Strategy<Value = Step> {
    let w_loss = if lossy { 2 } else { 0 };
    let w_tick = match tick_mode {
        0 => 0,
        1 => 2,
        _ => 9,
    };
    let tick_ms: BoxedStrategy<u32> = if tick_mode == 2 {
        prop_oneof![4 => Just(100u32), 2 => Just(50u32), 3 => 1u32..1000, 2 => 1000u32..6000].boxed()
    } else {
        prop_oneof![3 => 1u32..3000, 2 => 3000u32..21000, 1 => Just(1000u32)].boxed()
    };
    prop_oneof![
        12 => (0u8..8, cmd_strategy(profile)).prop_map(|(node, argv)| Step::Cmd { node, argv }),
        10 => any::<u16>().prop_map(|idx| Step::Deliver { idx }),
        // deliveries biased to the oldest message (FIFO-ish stretches)
        4 => Just(Step::Deliver { idx: 0 }),
        2 => any::<u16>().prop_map(|idx| Step::Dup { idx }),
        w_loss => any::<u16>().prop_map(|idx| Step::Drop { idx }),
        w_loss => (0u8..8, 0u8..8).prop_map(|(a, b)| Step::Partition { a, b }),
        w_loss => Just(Step::Heal),
        w_tick => tick_ms.prop_map(|ms| Step::Tick { ms }),
        // keeps the union non-degenerate when both optional classes are off
        1 => Just(Step::Deliver { idx: 65535 }),
    ]
}

fn case_strategy(thorough: bool) -> impl Strategy<Value = Case> {
    let max_nodes: u8 = if thorough { 5 } else { 4 };
    let max_steps = if thorough { 80 } else { 40 };
    // tick mode: none 50 %, sparse 25 %, dense 25 %
    let tick_mode = prop_oneof![2 => Just(0u8), 1 => Just(1u8), 1 => Just(2u8)];
    let ordinary = (2u8..=max_nodes, 0u8..3, any::<bool>(), tick_mode, any::<bool>()).prop_flat_map(
        move |(nodes, profile, lossy, tick_mode, redeliver_lost)| {
            proptest::collection::vec(step_strategy(profile, lossy, tick_mode), 4..max_steps)
                .prop_map(move |steps| Case { nodes, steps, redeliver_lost })
        },
    );
    // scale class (1 case in 30): a short program on the observed keys, then thousands of writes of
    // filler keys at one node (key table > 1024 entries, clock advanced by > 4096 ticks), then a
    // short program again; what the first part left in flight is delivered late, after the bulk
    let scale = (2u8..=3, 1u8..3, prop_oneof![Just(1_100u16), Just(4_200u16), Just(5_200u16)], 0u8..8).prop_flat_map(
        move |(nodes, profile, count, bulk_node)| {
            // half of the scale cases use the full grammar of the profile, half a plain one
            // (SET / DEL of two string keys, few deliveries) in which "a delete, thousands of
            // ticks, another delete, then a late older write" is common
            let plain = || {
                prop_oneof![
                    5 => (0u8..8, prop_oneof![Just("ka"), Just("kb")], 0u8..4)
                        .prop_map(|(node, k, v)| Step::Cmd { node, argv: vec!["SET".into(), k.into(), format!("v{}", v)] }),
                    4 => (0u8..8, prop_oneof![Just("ka"), Just("kb")])
                        .prop_map(|(node, k)| Step::Cmd { node, argv: vec!["DEL".into(), k.into()] }),
                    3 => any::<u16>().prop_map(|idx| Step::Deliver { idx }),
                ]
                .boxed()
            };
            let (head, tail): (BoxedStrategy<Step>, BoxedStrategy<Step>) = if profile == 1 {
                (plain(), plain())
            } else {
                (step_strategy(profile, false, 0).boxed(), step_strategy(profile, false, 0).boxed())
            };
            (
                proptest::collection::vec(head, 4..14),
                proptest::collection::vec(tail, 3..12),
            )
                .prop_map(move |(mut steps, tail)| {
                    steps.push(Step::Bulk { node: bulk_node, n: count });
                    steps.extend(tail);
                    Case { nodes, steps, redeliver_lost: false }
                })
        },
    );
    prop_oneof![29 => ordinary.boxed(), 1 => scale.boxed()]
}

// ---------------------------------------------------------------------------------------
// observation
// ---------------------------------------------------------------------------------------

#[derive(Clone, Debug, PartialEq, Eq)]
enum Body {
    None,
    Str(String),
    Hash(Vec<(String, String)>),
    /// something the projection cannot express (kept verbatim for the message)
    Other(String),
}

impl Body {
    fn show(&self) -> String {
        match self {
            Body::None => "(absent)".into(),
            Body::Str(s) => format!("string \"{}\"", s),
            Body::Hash(h) => format!(
                "hash {{{}}}",
                h.iter().map(|(f, v)| format!("{}={}", f, v)).collect::<Vec<_>>().join(", ")
            ),
            Body::Other(s) => format!("?{}", s),
        }
    }
}

#[derive(Clone, Debug, PartialEq, Eq)]
struct Obs {
    body: Body,
    pttl: i64,
}

fn norm(r: Reply) -> Reply {
    match r.error_code() {
        Some(c) => Reply::Error(c.into_bytes()),
        None => r,
    }
}

async fn run(node: &ReplicatedShardHandle, argv: &[&str]) -> Result<(Reply, Option<ReplicationDelta>), String> {
    let a: Vec<Vec<u8>> = argv.iter().map(|s| s.as_bytes().to_vec()).collect();
    let cmd = parse_zc(&a).map_err(|e| format!("harness: {:?} does not parse: {}", argv, e))?;
    let (r, d) = node.execute(cmd).await;
    Ok((Reply::from_resp(&r), d))
}

/// What a client reads for a key: TYPE, GET, HGETALL (as a multiset of pairs), EXISTS, PTTL,
/// cross-checked into one body (an inconsistent combination is reported as such).
async fn observe(node: &ReplicatedShardHandle, key: &str) -> Result<Obs, String> {
    let ty = run(node, &["TYPE", key]).await?.0;
    let get = norm(run(node, &["GET", key]).await?.0);
    let hga = norm(run(node, &["HGETALL", key]).await?.0.sorted_pairs());
    let exists = run(node, &["EXISTS", key]).await?.0;
    let pttl = run(node, &["PTTL", key]).await?.0.as_int().unwrap_or(i64::MIN);
    let wrong = Reply::Error(b"WRONGTYPE".to_vec());
    let ty_s = match &ty {
        Reply::Simple(s) => String::from_utf8_lossy(s).into_owned(),
        o => o.show(),
    };
    let body = match (ty_s.as_str(), &get, &hga, &exists) {
        ("none", Reply::Nil, Reply::Array(a), Reply::Int(0)) if a.is_empty() => Body::None,
        ("string", Reply::Bulk(b), h, Reply::Int(1)) if *h == wrong => Body::Str(vcore::show(b)),
        ("hash", g, Reply::Array(a), Reply::Int(1)) if *g == wrong && !a.is_empty() && a.len() % 2 == 0 => {
            let mut pairs = Vec::new();
            for c in a.chunks(2) {
                match (&c[0], &c[1]) {
                    (Reply::Bulk(f), Reply::Bulk(v)) => pairs.push((vcore::show(f), vcore::show(v))),
                    _ => return Ok(Obs { body: Body::Other(format!("HGETALL {}", hga.show())), pttl }),
                }
            }
            pairs.sort();
            Body::Hash(pairs)
        }
        _ => Body::Other(format!(
            "TYPE {} GET {} HGETALL {} EXISTS {}",
            ty_s,
            get.show(),
            hga.show(),
            exists.show()
        )),
    };
    Ok(Obs { body, pttl })
}

/// The node's own replication state for a key, through `vcore::proj::client_view`.
fn state_view(snap: &HashMap<String, ReplicatedValue>, key: &str) -> (Body, Option<u64>) {
    let Some(v) = snap.get(key) else {
        return (Body::None, None);
    };
    let view = vcore::proj::client_view(v);
    let body = match view["body"]["type"].as_str() {
        Some("none") => Body::None,
        Some("string") => Body::Str(view["body"]["value"].as_str().unwrap_or("").to_string()),
        Some("hash") => {
            let mut pairs: Vec<(String, String)> = view["body"]["fields"]
                .as_array()
                .map(|a| {
                    a.iter()
                        .map(|p| {
                            (
                                vcore::show(p[0].as_str().unwrap_or("").as_bytes()),
                                p[1].as_str().unwrap_or("").to_string(),
                            )
                        })
                        .collect()
                })
                .unwrap_or_default();
            pairs.sort();
            Body::Hash(pairs)
        }
        _ => Body::Other(view["body"].to_string()),
    };
    (body, v.expiry_ms)
}

fn show_rv(v: &ReplicatedValue) -> String {
    let inner = match &v.crdt {
        CrdtValue::Lww(l) => format!(
            "lww {}@({},r{})",
            l.get().map(|s| format!("\"{}\"", vcore::show(s.as_bytes()))).unwrap_or_else(|| if l.tombstone { "<tomb>".into() } else { "<unset>".into() }),
            l.timestamp.time,
            l.timestamp.replica_id.0
        ),
        CrdtValue::Hash(h) => {
            let mut f: Vec<String> = h
                .iter()
                .map(|(k, l)| {
                    format!(
                        "{}={}@({},r{})",
                        k,
                        l.get().map(|s| vcore::show(s.as_bytes())).unwrap_or_else(|| "<tomb>".into()),
                        l.timestamp.time,
                        l.timestamp.replica_id.0
                    )
                })
                .collect();
            f.sort();
            format!("hash {{{}}}", f.join(" "))
        }
        other => other.type_name().to_string(),
    };
    format!("{} outer=({},r{}) expiry_ms={:?}", inner, v.timestamp.time, v.timestamp.replica_id.0, v.expiry_ms)
}

// ---------------------------------------------------------------------------------------
// the run
// ---------------------------------------------------------------------------------------

#[derive(Clone)]
struct Msg {
    id: usize,
    from: usize,
    to: usize,
    delta: ReplicationDelta,
}

#[derive(Default, Clone)]
struct KeyInfo {
    /// only plain `SET k v` and `DEL` were ever issued for this key (and none failed)
    only_plain: bool,
    /// register stamps observed on deltas of this key -> value (None = tombstone)
    writes: Vec<(Stamp, Option<String>)>,
    writers: BTreeSet<usize>,
    delta_cmds: u32,
    t1: bool,
    t2: bool,
    /// the delta of such a no-op / failed command carried an expiry
    t1_exp: bool,
    t2_exp: bool,
    t3: bool,
    t6: bool,
    /// deltas of both CRDT kinds (register and hash) were emitted for this key
    saw_lww: bool,
    saw_hash: bool,
    /// a valid expiring write (EX/PX) or KEEPTTL was issued for this key
    te: bool,
    /// a valid PX write whose duration is not a whole number of seconds was issued
    px_sub: bool,
    /// ... and one of less than a second (peers reject the resulting SETEX 0 and keep whatever they had)
    px_zero: bool,
}

#[derive(Clone, Copy, PartialEq, Eq, Debug)]
enum Kind {
    Body,
    PresenceOnly,
    Ttl,
    Winner,
}

struct Net<'a, 'b> {
    ctx: &'a mut CaseCtx<'b>,
    nodes: Vec<ReplicatedShardHandle>,
    inflight: Vec<Msg>,
    lost: Vec<Msg>,
    lost_for_good: bool,
    cut: BTreeSet<(usize, usize)>,
    now_ms: u64,
    time_advanced: bool,
    max_ttl_ms: u64,
    next_id: usize,
    keys: BTreeMap<String, KeyInfo>,
    trace: Vec<String>,
    faulty_delivery: bool,
    bulk_rounds: u32,
    tolerated_at: BTreeSet<(String, String, &'static str)>,
    /// presence per node at the last verdict (D only judges what eviction changed)
    last_presence: BTreeMap<String, Vec<bool>>,
    /// per node: a tick happened while the node served no key with a TTL (the TTL manager
    /// ticks every shard, also the ones that have nothing to evict)
    idle_tick_seen: Vec<bool>,
}

impl<'a, 'b> Net<'a, 'b> {
    fn fail(&self, msg: String) -> String {
        let n = self.trace.len();
        let from = n.saturating_sub(60);
        format!("{}\n  program so far:\n    {}", msg, self.trace[from..].join("\n    "))
    }

    fn key(&mut self, k: &str) -> &mut KeyInfo {
        self.keys.entry(k.to_string()).or_insert_with(|| KeyInfo { only_plain: true, ..Default::default() })
    }

    async fn snapshot(&self, i: usize) -> HashMap<String, ReplicatedValue> {
        self.nodes[i].get_snapshot().await
    }

    /// KF-C06-06 trigger, observed: after a delta was applied at node `i`, its replication
    /// state holds a hash (live or fully tombstoned fields) for the key while its executor
    /// holds a string.
    async fn note_hash_over_string(&mut self, i: usize, key: &str) -> Result<(), String> {
        let snap = self.snapshot(i).await;
        if snap.get(key).map(|v| v.is_hash()).unwrap_or(false) {
            let ty = run(&self.nodes[i], &["TYPE", key]).await?.0;
            if ty == Reply::Simple(b"string".to_vec()) && !self.key(key).t6 {
                self.key(key).t6 = true;
                self.trace.push(format!("      (n{}: replication state of {} is a hash, the executor still holds a string)", i + 1, key));
            }
        }
        Ok(())
    }

    async fn deliver(&mut self, m: Msg, why: &str) -> Result<(), String> {
        let link = (m.from.min(m.to), m.from.max(m.to));
        if self.cut.contains(&link) {
            self.trace.push(format!("{} #{} n{}->n{} lost (link cut)", why, m.id, m.from + 1, m.to + 1));
            self.faulty_delivery = true;
            self.lost.push(m);
            return Ok(());
        }
        self.trace.push(format!(
            "{} #{} n{}->n{} {}: {}",
            why,
            m.id,
            m.from + 1,
            m.to + 1,
            m.delta.key,
            show_rv(&m.delta.value)
        ));
        self.nodes[m.to].apply_remote_delta(m.delta.clone());
        self.note_hash_over_string(m.to, &m.delta.key).await
    }

    async fn command(&mut self, node: usize, argv: &[String]) -> Result<(), String> {
        let args: Vec<&str> = argv.iter().map(|s| s.as_str()).collect();
        let name = args[0].to_ascii_uppercase();
        let cmd_keys: Vec<String> = if name == "DEL" {
            args[1..].iter().map(|s| s.to_string()).collect()
        } else {
            vec![args[1].to_string()]
        };
        // what the node serves for the keys before the command (TYPE only; used to recognise
        // the no-op / wrong-type situations of the listed findings by observation)
        let mut pre_type: BTreeMap<String, String> = BTreeMap::new();
        for k in &cmd_keys {
            let t = run(&self.nodes[node], &["TYPE", k]).await?.0;
            pre_type.insert(
                k.clone(),
                match t {
                    Reply::Simple(s) => String::from_utf8_lossy(&s).into_owned(),
                    o => o.show(),
                },
            );
        }
        // what the node's replication state held before the command (for the stamp invariant)
        let pre_snap = self.snapshot(node).await;
        let (reply, returned) = run(&self.nodes[node], &args).await?;
        let mut deltas = self.nodes[node].drain_pending_deltas().await;
        if let Some(r) = returned {
            let have = deltas.iter().any(|d| {
                d.key == r.key && vcore::proj::peer_view(&d.value) == vcore::proj::peer_view(&r.value)
            });
            if !have {
                deltas.push(r);
            }
        }
        self.trace.push(format!(
            "n{} {} -> {}{}",
            node + 1,
            argv.join(" "),
            reply.show(),
            if deltas.is_empty() {
                "  (no delta)".to_string()
            } else {
                format!(
                    "  delta {}",
                    deltas.iter().map(|d| format!("{}: {}", d.key, show_rv(&d.value))).collect::<Vec<_>>().join("; ")
                )
            }
        ));

        // ---- always-on stamp invariant, independent of every tolerance: a delta that changes the
        // key's replicated content carries an outer stamp of this node that is strictly greater
        // than every outer stamp the node held before the command (and than the stamps of the
        // deltas the same command emitted before it). Every local write ticks the shard clock,
        // and the clock is never behind a value the node holds.
        let mut high: Stamp = pre_snap.values().map(|v| stamp(&v.timestamp)).max().unwrap_or((0, 0));
        let mut prev_of: BTreeMap<String, ReplicatedValue> = BTreeMap::new();
        for d in &deltas {
            let prev = prev_of.get(&d.key).or_else(|| pre_snap.get(&d.key));
            let changed = match prev {
                Some(p) => vcore::proj::peer_view(p)["crdt"] != vcore::proj::peer_view(&d.value)["crdt"],
                None => true,
            };
            if changed {
                let out = stamp(&d.value.timestamp);
                if out.1 != node as u64 + 1 || out <= high {
                    return Err(self.fail(format!(
                        "n{} {}: the delta for {} changes the replicated content ({} -> {}) but its outer stamp ({}, r{}) is not a fresh stamp of this node: the node already held ({}, r{})",
                        node + 1,
                        argv.join(" "),
                        d.key,
                        prev.map(show_rv).unwrap_or_else(|| "(no entry)".into()),
                        show_rv(&d.value),
                        out.0,
                        out.1,
                        high.0,
                        high.1
                    )));
                }
                high = out;
                self.ctx.label("invariant:delta_stamp_fresh");
            }
            prev_of.insert(d.key.clone(), d.value.clone());
        }

        // ---- classification of the command for the bookkeeping
        let is_plain_set = name == "SET" && args.len() == 3;
        let has = |o: &str| args.iter().skip(3).any(|a| a.eq_ignore_ascii_case(o));
        let opt_val = |o: &str| -> Option<i64> {
            args.iter().position(|a| a.eq_ignore_ascii_case(o)).and_then(|p| args.get(p + 1)).and_then(|v| v.parse().ok())
        };
        let is_read = matches!(name.as_str(), "GET" | "HGETALL" | "EXISTS" | "TYPE" | "TTL" | "STRLEN" | "HGET");
        if is_read {
            self.ctx.label("cmd:read");
            if !deltas.is_empty() {
                return Err(self.fail(format!("n{} {}: a read command emitted a delta", node + 1, argv.join(" "))));
            }
            self.key(&cmd_keys[0]);
            return Ok(());
        }
        for k in &cmd_keys {
            let ki = self.key(k);
            if !(is_plain_set || name == "DEL") || reply.is_error() {
                ki.only_plain = false;
            }
        }
        if name == "SET" && !reply.is_error() {
            let ttl = match (opt_val("EX"), opt_val("PX")) {
                (Some(s), _) if s > 0 => Some(s as u64 * 1000),
                (_, Some(ms)) if ms > 0 => Some(ms as u64),
                _ => None,
            };
            if let Some(t) = ttl {
                self.max_ttl_ms = self.max_ttl_ms.max(t);
                self.key(&cmd_keys[0]).te = true;
                if t % 1000 != 0 {
                    self.key(&cmd_keys[0]).px_sub = true;
                }
                if t < 1000 {
                    self.key(&cmd_keys[0]).px_zero = true;
                }
                self.ctx.label("cmd:set_with_ttl");
            }
            if has("KEEPTTL") {
                self.key(&cmd_keys[0]).te = true;
            }
        }
        // KF-C06-02 trigger, observed: error reply, yet a delta was emitted
        if reply.is_error() && !deltas.is_empty() {
            for d in &deltas {
                self.key(&d.key).t2 = true;
                if d.value.expiry_ms.is_some() {
                    self.key(&d.key).t2_exp = true;
                }
            }
            self.ctx.label("trigger:failed_command_emitted_delta");
        }
        // Conditional SET that did not write (NX on a key the node serves / XX on a key it does not
        // serve) and yet emitted a delta. On the unchanged tree exactly one shape does that (see
        // the check `conditional_set_sweep`): NX on a key the node serves as a *string*. Only
        // that shape is KF-C06-01's trigger; any other one (XX on a deleted or expired key, NX
        // on a hash ...) is reported on the spot.
        if name == "SET" && (has("NX") || has("XX")) {
            let k0 = &cmd_keys[0];
            let existed = pre_type[k0] != "none";
            let tomb = pre_snap.get(k0).map(|v| v.is_tombstone()).unwrap_or(false);
            if !existed && tomb {
                self.ctx.label(if has("XX") { "cond:xx_on_deleted_key" } else { "cond:nx_on_deleted_key" });
            }
            if !existed && !tomb && pre_snap.contains_key(k0) {
                self.ctx.label("cond:on_key_absent_here_but_live_in_state");
            }
            let noop = (has("NX") && existed) || (has("XX") && !existed);
            if noop && !reply.is_error() && !deltas.is_empty() {
                if has("NX") && pre_type[k0] == "string" {
                    self.key(k0).t1 = true;
                    if deltas.iter().any(|d| d.value.expiry_ms.is_some()) {
                        self.key(k0).t1_exp = true;
                    }
                    self.ctx.label("trigger:conditional_noop_emitted_delta");
                } else {
                    return Err(self.fail(format!(
                        "n{} {}: the command did nothing (reply {}, the node served {} for the key before) and yet emitted a delta {}: the writer keeps serving the old state while every replica that merges the delta serves the new value",
                        node + 1,
                        argv.join(" "),
                        reply.show(),
                        if existed { pre_type[k0].as_str() } else { "nothing" },
                        deltas.iter().map(|d| show_rv(&d.value)).collect::<Vec<_>>().join("; ")
                    )));
                }
            }
        }
        // KF-C06-03 trigger, observed: DEL removed a hash from the executor while the node's
        // replication state still holds live fields for it
        if name == "DEL" && !reply.is_error() {
            let snap = self.snapshot(node).await;
            for k in &cmd_keys {
                if pre_type[k] == "hash" {
                    if let (Body::Hash(_), _) = state_view(&snap, k) {
                        self.key(k).t3 = true;
                        self.ctx.label("trigger:del_of_hash_without_tombstone");
                    }
                }
            }
        }
        self.ctx.label(&format!("cmd:{}", name.to_lowercase()));

        // ---- stamps of register writes (for the LWW-winner oracle) and fan-out
        for d in deltas {
            {
                let ki = self.key(&d.key);
                ki.delta_cmds += 1;
                ki.writers.insert(node);
                match &d.value.crdt {
                    CrdtValue::Lww(_) => ki.saw_lww = true,
                    CrdtValue::Hash(_) => ki.saw_hash = true,
                    _ => {}
                }
                if let CrdtValue::Lww(l) = &d.value.crdt {
                    let v = l.get().map(|s| vcore::show(s.as_bytes()));
                    let st = stamp(&l.timestamp);
                    if !ki.writes.iter().any(|(s, x)| *s == st && *x == v) {
                        ki.writes.push((st, v));
                    }
                }
            }
            for to in 0..self.nodes.len() {
                if to != node {
                    let id = self.next_id;
                    self.next_id += 1;
                    self.inflight.push(Msg { id, from: node, to, delta: d.clone() });
                }
            }
        }
        Ok(())
    }

    fn pick(&self, idx: u16) -> Option<usize> {
        if self.inflight.is_empty() {
            None
        } else {
            Some(((idx as usize) * self.inflight.len()) >> 16)
        }
    }

    async fn step(&mut self, s: &Step) -> Result<(), String> {
        let n = self.nodes.len();
        match s {
            Step::Cmd { node, argv } => {
                if argv.len() < 2 {
                    return Ok(());
                }
                self.command(*node as usize % n, argv).await?;
            }
            Step::Deliver { idx } => {
                if let Some(i) = self.pick(*idx) {
                    let m = self.inflight.remove(i);
                    if self.inflight.iter().any(|o| o.from == m.from && o.to == m.to && o.id < m.id) {
                        self.faulty_delivery = true;
                        self.ctx.label("net:reordered");
                    }
                    self.deliver(m, "deliver").await?;
                }
            }
            Step::Dup { idx } => {
                if let Some(i) = self.pick(*idx) {
                    let m = self.inflight[i].clone();
                    self.trace.push(format!("duplicate #{} n{}->n{}", m.id, m.from + 1, m.to + 1));
                    self.inflight.push(m);
                    self.faulty_delivery = true;
                    self.ctx.label("net:duplicated");
                }
            }
            Step::Drop { idx } => {
                if let Some(i) = self.pick(*idx) {
                    let m = self.inflight.remove(i);
                    self.trace.push(format!("drop #{} n{}->n{}", m.id, m.from + 1, m.to + 1));
                    self.lost.push(m);
                    self.faulty_delivery = true;
                    self.ctx.label("net:dropped");
                }
            }
            Step::Partition { a, b } => {
                let (a, b) = (*a as usize % n, *b as usize % n);
                if a != b {
                    self.cut.insert((a.min(b), a.max(b)));
                    self.trace.push(format!("partition n{} | n{}", a + 1, b + 1));
                    self.ctx.label("net:partition");
                }
            }
            Step::Heal => {
                if !self.cut.is_empty() {
                    self.cut.clear();
                    self.trace.push("heal all links".into());
                }
            }
            Step::Tick { ms } => {
                self.advance_clock(*ms as u64, "evict_expired on every node").await?;
                self.ctx.label("tick");
            }
            Step::Bulk { node, n: count } => {
                let node = *node as usize % n;
                self.bulk_rounds += 1;
                for i in 0..*count {
                    let key = format!("fill:{}:{}", self.bulk_rounds, i);
                    let (_, returned) = run(&self.nodes[node], &["SET", &key, "x"]).await?;
                    let mut deltas = self.nodes[node].drain_pending_deltas().await;
                    if let Some(r) = returned {
                        if !deltas.iter().any(|d| d.key == r.key) {
                            deltas.push(r);
                        }
                    }
                    for d in deltas {
                        for to in 0..n {
                            if to != node {
                                self.nodes[to].apply_remote_delta(d.clone());
                            }
                        }
                    }
                }
                self.trace.push(format!(
                    "n{} bulk: SET of {} fresh filler keys fill:{}:*, each delta handed to every other node at once",
                    node + 1,
                    count,
                    self.bulk_rounds
                ));
                self.ctx.label("bulk_traffic");
                if *count > 4096 {
                    self.ctx.label("bulk_traffic:>4096_writes");
                }
            }
        }
        Ok(())
    }

    /// PTTL of every key any command named so far, at every node (-2 absent, -1 no TTL).
    async fn ttl_reads(&self) -> Result<Vec<BTreeMap<String, i64>>, String> {
        let mut all = Vec::new();
        for h in &self.nodes {
            let mut m = BTreeMap::new();
            for k in self.keys.keys() {
                m.insert(k.clone(), run(h, &["PTTL", k]).await?.0.as_int().unwrap_or(i64::MIN));
            }
            all.push(m);
        }
        Ok(all)
    }

    /// One clock step of the cluster: the harness clock advances by `dt` ms and every node is
    /// told the new time (`evict_expired(now)`, what the TTL manager does for every shard).
    ///
    /// Always-on invariant, independent of every tolerance: **time passes alike on every
    /// replica**. Between the reads just before and just after the tick nothing but the tick
    /// happens, so at every node and for every key: absent stays absent, a key without a TTL
    /// stays (without a TTL), and a key served with `PTTL = p` is served with `p - dt` if
    /// `p > dt` and is gone otherwise. The open expiry findings (KF-C06-04/-05) are about which
    /// duration a write or a merge arms at a node; none of them explains a replica whose TTLs do
    /// not count down with the clock every replica was told. If one replica's did not, two
    /// replicas that hold the same value with the same remaining TTL, every update delivered,
    /// would stop answering EXISTS/GET/PTTL alike at the next tick.
    async fn advance_clock(&mut self, dt: u64, what: &str) -> Result<(), String> {
        let pre = self.ttl_reads().await?;
        let was = self.now_ms;
        self.now_ms += dt;
        self.time_advanced = true;
        self.trace.push(format!("clock -> {} ms ({})", self.now_ms, what));
        for h in &self.nodes {
            h.evict_expired(VirtualTime::from_millis(self.now_ms)).await;
        }
        let post = self.ttl_reads().await?;
        for i in 0..self.nodes.len() {
            let armed = pre[i].values().any(|p| *p >= 0);
            if armed {
                self.ctx.label("ttl:countdown_checked");
                if pre[i].values().any(|p| *p >= 0 && (*p as u64) > dt) {
                    self.ctx.label("ttl:key_with_ttl_survives_tick");
                    if self.idle_tick_seen[i] {
                        // the node went through a tick with nothing to evict, holds a TTL now
                        // and the key must still be there after this tick
                        self.ctx.label("ttl:key_with_ttl_survives_tick_at_node_with_earlier_idle_tick");
                    }
                }
            } else {
                self.idle_tick_seen[i] = true;
                self.ctx.label("ttl:tick_at_node_without_ttl_key");
            }
            for (k, p) in &pre[i] {
                let want = match *p {
                    p if p >= 0 && (p as u64) > dt => p - dt as i64,
                    p if p >= 0 => -2,
                    p => p,
                };
                if *p >= 0 && want == -2 {
                    self.ctx.label("ttl:expired_at_tick");
                }
                let got = post[i][k];
                if got != want {
                    let show = |v: i64| match v {
                        -2 => "absent (PTTL -2)".to_string(),
                        -1 => "present without a TTL (PTTL -1)".to_string(),
                        v => format!("present with PTTL {}", v),
                    };
                    return Err(self.fail(format!(
                        "clock {} -> {} ms: n{} served {} {} just before every node was told the new time and {} just after; \
                         {} ms passed and nothing else happened, so it must be {}: this replica's TTLs do not follow the clock all replicas are given, \
                         and replicas that hold the same value with the same TTL stop answering reads alike",
                        was,
                        self.now_ms,
                        i + 1,
                        k,
                        show(*p),
                        show(got),
                        dt,
                        show(want)
                    )));
                }
            }
        }
        Ok(())
    }

    /// Decide whether a discrepancy on `key` is exactly what an open finding explains.
    fn judge(&mut self, stage: &str, key: &str, kind: Kind, detail: String) -> Result<(), String> {
        let ki = self.keys.get(key).cloned().unwrap_or_default();
        let mixed = ki.te && ki.delta_cmds >= 2;
        let body_ids: Vec<&'static str> = [(ki.t1, KF1), (ki.t2, KF2), (ki.t3, KF3), (ki.t6, KF6), (ki.px_zero, KF7), (ki.saw_lww && ki.saw_hash, KF8)]
            .iter()
            .filter(|(t, _)| *t)
            .map(|(_, id)| *id)
            .collect();
        let ttl_id: Option<&'static str> = if !ki.te {
            None
        } else if mixed {
            Some(KF4)
        } else if self.time_advanced {
            Some(KF5)
        } else {
            None
        };
        let sub_id: Option<&'static str> = if ki.px_sub { Some(KF7) } else { None };
        let mut candidates: Vec<&'static str> = match kind {
            Kind::Body | Kind::Winner => body_ids,
            Kind::PresenceOnly => {
                let mut v = body_ids;
                v.extend(sub_id);
                if self.time_advanced {
                    v.extend(ttl_id);
                }
                v
            }
            Kind::Ttl => [(ki.t1_exp, KF1), (ki.t2_exp, KF2)]
                .iter()
                .filter(|(t, _)| *t)
                .map(|(_, id)| *id)
                .chain(sub_id)
                .chain(ttl_id)
                .collect(),
        };
        candidates.retain(|id| self.ctx.finding_open(id));
        if let Some(id) = candidates.first() {
            if self.tolerated_at.insert((stage.to_string(), key.to_string(), id)) {
                self.ctx.tolerate(id);
                if std::env::var("C06_SHOW_TOLERATED").map(|v| v == *id).unwrap_or(false) {
                    // development aid: look at what a matcher swallows (never affects a verdict)
                    eprintln!("TOLERATED {} kind {:?}: {}\n", id, kind, self.fail(format!("[{}] key {}: {}", stage, key, detail)));
                }
            }
            return Ok(());
        }
        Err(self.fail(format!("[{}] key {}: {}", stage, key, detail)))
    }

    /// Oracles A (agreement), B (served = own replication state), C (LWW winner).
    async fn verdict(&mut self, stage: &str) -> Result<(), String> {
        let keys: Vec<String> = self.keys.keys().cloned().collect();
        let n = self.nodes.len();
        let mut snaps = Vec::new();
        for i in 0..n {
            snaps.push(self.snapshot(i).await);
        }
        for key in keys {
            let mut obs = Vec::new();
            for i in 0..n {
                obs.push(observe(&self.nodes[i], &key).await?);
            }
            let describe = |obs: &Vec<Obs>, snaps: &Vec<HashMap<String, ReplicatedValue>>| -> String {
                (0..n)
                    .map(|i| {
                        format!(
                            "\n      n{} serves {} pttl={} | replication state: {}",
                            i + 1,
                            obs[i].body.show(),
                            obs[i].pttl,
                            snaps[i].get(&key).map(show_rv).unwrap_or_else(|| "(no entry)".into())
                        )
                    })
                    .collect::<String>()
            };
            self.last_presence.insert(key.clone(), obs.iter().map(|o| o.body != Body::None).collect());
            for o in &obs {
                if let Body::Other(s) = &o.body {
                    return Err(self.fail(format!("[{}] key {}: a node's read replies are inconsistent with each other: {}", stage, key, s)));
                }
            }
            // ---- always-on: two replicas never hold values of different CRDT kinds under the same
            // outer stamp. A stamp is issued once, for one write; the open type-flip findings
            // (KF-C06-06/-08) are about values with *different* stamps meeting in different orders
            // and do not explain a tie.
            let held: Vec<(usize, bool, Stamp)> = (0..n)
                .filter_map(|i| snaps[i].get(&key).map(|v| (i, v.is_hash(), stamp(&v.timestamp))))
                .collect();
            for a in &held {
                for b in &held {
                    if a.0 < b.0 && a.1 != b.1 && a.2 == b.2 {
                        return Err(self.fail(format!(
                            "[{}] key {}: n{} holds a {} and n{} a {} under the same outer stamp ({}, r{}): two different writes carry one stamp{}",
                            stage,
                            key,
                            a.0 + 1,
                            if a.1 { "hash" } else { "string register" },
                            b.0 + 1,
                            if b.1 { "hash" } else { "string register" },
                            a.2 .0,
                            a.2 .1,
                            describe(&obs, &snaps)
                        )));
                    }
                }
            }
            // ---- B: served = own replication state
            for i in 0..n {
                let (sbody, sexp) = state_view(&snaps[i], &key);
                if obs[i].body != sbody {
                    let kind = if obs[i].body == Body::None { Kind::PresenceOnly } else { Kind::Body };
                    self.judge(
                        stage,
                        &key,
                        kind,
                        format!(
                            "n{} serves {} but its replication state says {}{}",
                            i + 1,
                            obs[i].body.show(),
                            sbody.show(),
                            describe(&obs, &snaps)
                        ),
                    )?;
                } else if sbody != Body::None {
                    let has_ttl = obs[i].pttl >= 0;
                    if has_ttl != sexp.is_some() {
                        self.judge(
                            stage,
                            &key,
                            Kind::Ttl,
                            format!(
                                "n{} serves the key with pttl={} but its replication state says expiry_ms={:?}{}",
                                i + 1,
                                obs[i].pttl,
                                sexp,
                                describe(&obs, &snaps)
                            ),
                        )?;
                    }
                }
            }
            // ---- A: all nodes answer alike
            let distinct: BTreeSet<String> = obs.iter().map(|o| o.body.show()).collect();
            if distinct.len() > 1 {
                let present: BTreeSet<String> =
                    obs.iter().filter(|o| o.body != Body::None).map(|o| o.body.show()).collect();
                let kind = if present.len() <= 1 { Kind::PresenceOnly } else { Kind::Body };
                self.judge(stage, &key, kind, format!("replicas answer reads differently{}", describe(&obs, &snaps)))?;
            } else if obs[0].body != Body::None {
                let ttls: BTreeSet<i64> = obs.iter().map(|o| o.pttl).collect();
                if ttls.len() > 1 {
                    self.judge(
                        stage,
                        &key,
                        Kind::Ttl,
                        format!("replicas agree on the value but not on its remaining TTL{}", describe(&obs, &snaps)),
                    )?;
                }
            }
            // ---- C: plain SET/DEL keys: the write with the greatest stamp
            let ki = self.keys[&key].clone();
            if ki.only_plain && distinct.len() == 1 {
                let want = match ki.writes.iter().max_by_key(|(s, _)| *s) {
                    Some((_, Some(v))) => Body::Str(v.clone()),
                    _ => Body::None,
                };
                self.ctx.label("oracle:lww_winner_checked");
                if obs[0].body != want {
                    let mut w = ki.writes.clone();
                    w.sort();
                    self.judge(
                        stage,
                        &key,
                        Kind::Winner,
                        format!(
                            "all replicas serve {} but the write with the greatest stamp is {} (stamps seen on deltas: {:?}){}",
                            obs[0].body.show(),
                            want.show(),
                            w,
                            describe(&obs, &snaps)
                        ),
                    )?;
                }
            }
        }
        Ok(())
    }

    /// Two all-pairs rounds of full-state exchange built from get_snapshot().
    async fn full_exchange(&mut self) -> Result<(), String> {
        let n = self.nodes.len();
        for round in 0..2 {
            for i in 0..n {
                let snap = self.snapshot(i).await;
                // the filler keys of a Bulk step were handed to every node when they were written
                // and are not observed: they are left out of the exchange (cost only)
                let mut ks: Vec<&String> = snap.keys().filter(|k| !k.starts_with("fill:")).collect();
                ks.sort();
                for j in 0..n {
                    if i == j {
                        continue;
                    }
                    for k in &ks {
                        let d = ReplicationDelta::new((*k).clone(), snap[*k].clone(), ReplicaId::new(i as u64 + 1));
                        self.nodes[j].apply_remote_delta(d);
                        self.note_hash_over_string(j, k).await?;
                    }
                }
            }
            self.trace.push(format!("full-state exchange round {} done", round + 1));
        }
        Ok(())
    }

    /// D: after eviction beyond every TTL used, a key is absent everywhere or present everywhere.
    async fn final_eviction(&mut self) -> Result<(), String> {
        self.advance_clock(self.max_ttl_ms + 1, "beyond every TTL used; evict_expired on every node").await?;
        let keys: Vec<String> = self.keys.keys().cloned().collect();
        for key in keys {
            let mut ex = Vec::new();
            for h in &self.nodes {
                ex.push(run(h, &["EXISTS", &key]).await?.0);
            }
            let before = self.last_presence.get(&key).cloned().unwrap_or_default();
            let agreed_before = before.iter().all(|p| *p == before[0]);
            if agreed_before && ex.iter().any(|e| *e != ex[0]) {
                self.judge(
                    "D",
                    &key,
                    Kind::Ttl,
                    format!(
                        "after eviction beyond every TTL used the key exists on some replicas only: EXISTS = {:?}",
                        ex.iter().map(|e| e.show()).collect::<Vec<_>>()
                    ),
                )?;
            }
        }
        Ok(())
    }
}

fn check_case(case: &Case, ctx: &mut CaseCtx<'_>) -> Result<(), String> {
    vcore::block_on(async {
        let n = (case.nodes as usize).clamp(2, 6);
        let nodes: Vec<ReplicatedShardHandle> = (0..n)
            .map(|i| ReplicatedShardActor::spawn(ReplicaId::new(i as u64 + 1), ConsistencyLevel::Eventual, 0))
            .collect();
        let mut net = Net {
            ctx,
            nodes,
            inflight: Vec::new(),
            lost: Vec::new(),
            lost_for_good: false,
            cut: BTreeSet::new(),
            now_ms: 0,
            time_advanced: false,
            max_ttl_ms: 0,
            next_id: 0,
            keys: BTreeMap::new(),
            trace: Vec::new(),
            faulty_delivery: false,
            bulk_rounds: 0,
            tolerated_at: BTreeSet::new(),
            last_presence: BTreeMap::new(),
            idle_tick_seen: vec![false; n],
        };
        net.ctx.label(&format!("nodes:{}", n));
        for s in &case.steps {
            net.step(s).await?;
        }
        // ---- delivery of everything still in flight; lost deltas are sent again if asked
        net.cut.clear();
        net.trace.push("---- heal; deliver everything in flight".into());
        let rest: Vec<Msg> = std::mem::take(&mut net.inflight);
        for m in rest {
            net.deliver(m, "deliver").await?;
        }
        if !net.lost.is_empty() {
            if case.redeliver_lost {
                let lost: Vec<Msg> = std::mem::take(&mut net.lost);
                for m in lost {
                    net.deliver(m, "redeliver").await?;
                }
                net.ctx.label("net:lost_then_redelivered");
            } else {
                net.lost_for_good = true;
            }
        }
        let multi_writer = net.keys.values().any(|k| k.writers.len() >= 2);
        if multi_writer && net.faulty_delivery {
            let fp = serde_json::to_string(case).unwrap_or_default();
            net.ctx.nontrivial(&fp);
        }
        if !net.lost_for_good {
            // every update has reached every replica by plain delivery
            net.ctx.label("verdict:Q1_after_delivery");
            net.verdict("Q1 (every delta delivered to every replica)").await?;
        } else {
            net.ctx.label("verdict:Q1_skipped_lost_deltas");
        }
        net.full_exchange().await?;
        net.verdict("Q2 (after two rounds of full-state exchange)").await?;
        net.final_eviction().await?;
        let tainted = net.keys.values().filter(|k| k.t1 || k.t2 || k.t3 || k.t6).count();
        if tainted == 0 {
            net.ctx.label("program:no_body_trigger_observed");
        }
        Ok(())
    })
}

// ---------------------------------------------------------------------------------------
// second tier: MultiNodeSimulation
// ---------------------------------------------------------------------------------------

#[derive(Clone, Debug, Serialize, Deserialize)]
enum SimStep {
    Set { node: u8, key: u8, val: u8 },
    Del { node: u8, key: u8 },
    Gossip { advance_ms: u16 },
    Partition { a: u8, b: u8 },
    Heal { a: u8, b: u8 },
    Loss { percent: u8 },
}

#[derive(Clone, Debug, Serialize, Deserialize)]
struct SimCase {
    nodes: u8,
    seed: u64,
    steps: Vec<SimStep>,
}

fn sim_case_strategy(thorough: bool) -> impl Strategy<Value = SimCase> {
    let max_steps = if thorough { 60 } else { 30 };
    let step = prop_oneof![
        8 => (0u8..8, 0u8..4, 0u8..8).prop_map(|(node, key, val)| SimStep::Set { node, key, val }),
        3 => (0u8..8, 0u8..4).prop_map(|(node, key)| SimStep::Del { node, key }),
        6 => prop_oneof![Just(0u16), Just(5u16), 1u16..40].prop_map(|advance_ms| SimStep::Gossip { advance_ms }),
        1 => (0u8..8, 0u8..8).prop_map(|(a, b)| SimStep::Partition { a, b }),
        1 => (0u8..8, 0u8..8).prop_map(|(a, b)| SimStep::Heal { a, b }),
        1 => prop_oneof![Just(0u8), Just(30u8), Just(70u8)].prop_map(|percent| SimStep::Loss { percent }),
    ];
    (2u8..=5, any::<u64>(), proptest::collection::vec(step, 3..max_steps))
        .prop_map(|(nodes, seed, steps)| SimCase { nodes, seed, steps })
}

fn check_sim(case: &SimCase, ctx: &mut CaseCtx<'_>) -> Result<(), String> {
    use redis_sim::redis::{Command, SDS};
    let n = (case.nodes as usize).clamp(2, 6);
    let mut sim = MultiNodeSimulation::new(n, case.seed);
    let mut trace: Vec<String> = Vec::new();
    // per key: (stamp, value) of every write, read off the writer's state right after it
    let mut writes: BTreeMap<String, Vec<(Stamp, Option<String>)>> = BTreeMap::new();
    let mut writers: BTreeMap<String, BTreeSet<usize>> = BTreeMap::new();
    let mut faults = false;
    for (si, s) in case.steps.iter().enumerate() {
        match s {
            SimStep::Set { node, key, val } => {
                let (node, key) = (*node as usize % n, KEYS[*key as usize % KEYS.len()]);
                let v = format!("s{}_{}", si, val);
                sim.execute(0, node, Command::set(key.to_string(), SDS::from_str(&v)));
                let st = sim.nodes[node]
                    .replica_state
                    .get_replicated(key)
                    .and_then(|rv| rv.lww().map(|l| stamp(&l.timestamp)))
                    .unwrap_or((0, 0));
                trace.push(format!("n{} SET {} {} -> stamp ({}, r{})", node + 1, key, v, st.0, st.1));
                writes.entry(key.to_string()).or_default().push((st, Some(v)));
                writers.entry(key.to_string()).or_default().insert(node);
            }
            SimStep::Del { node, key } => {
                let (node, key) = (*node as usize % n, KEYS[*key as usize % KEYS.len()]);
                let before = sim.nodes[node].replica_state.get_replicated(key).and_then(|rv| rv.lww().map(|l| stamp(&l.timestamp)));
                sim.execute(0, node, Command::del(key.to_string()));
                let after = sim.nodes[node].replica_state.get_replicated(key).and_then(|rv| rv.lww().map(|l| stamp(&l.timestamp)));
                trace.push(format!("n{} DEL {} -> stamp {:?}", node + 1, key, after));
                if let Some(st) = after {
                    if before != after {
                        writes.entry(key.to_string()).or_default().push((st, None));
                        writers.entry(key.to_string()).or_default().insert(node);
                    }
                }
            }
            SimStep::Gossip { advance_ms } => {
                sim.advance_time_ms(*advance_ms as u64);
                sim.gossip_round();
                trace.push(format!("advance {} ms; gossip round ({} messages queued)", advance_ms, sim.message_queue.len()));
            }
            SimStep::Partition { a, b } => {
                let (a, b) = (*a as usize % n, *b as usize % n);
                if a != b {
                    sim.partition(a, b);
                    faults = true;
                    ctx.label("sim:partition");
                    trace.push(format!("partition n{} | n{}", a + 1, b + 1));
                }
            }
            SimStep::Heal { a, b } => {
                let (a, b) = (*a as usize % n, *b as usize % n);
                if a != b {
                    sim.heal_partition(a, b);
                    trace.push(format!("heal n{} - n{} (anti-entropy syncs so far: {})", a + 1, b + 1, sim.anti_entropy_syncs));
                }
            }
            SimStep::Loss { percent } => {
                sim.packet_loss_rate = (*percent as f64 / 100.0).clamp(0.0, 1.0);
                if *percent > 0 {
                    faults = true;
                    ctx.label("sim:loss");
                }
                trace.push(format!("packet loss {}%", percent));
            }
        }
    }
    // network idle: no loss, all links healed (the simulator runs its anti-entropy on heal),
    // queue flushed by its own gossip rounds
    sim.packet_loss_rate = 0.0;
    let cuts: Vec<(usize, usize)> = sim.partitions.iter().cloned().collect();
    for (a, b) in cuts {
        sim.heal_partition(a, b);
    }
    for _ in 0..6 {
        sim.advance_time_ms(50);
        sim.gossip_round();
    }
    if faults && writers.values().any(|w| w.len() >= 2) {
        ctx.nontrivial(&serde_json::to_string(case).unwrap_or_default());
    }
    let fail = |msg: String| format!("{}\n  program:\n    {}", msg, trace.join("\n    "));
    // S1 = the simulator's own delivery is over (nothing in flight). Served = state must hold at
    // every node; where the replication states already agree everywhere (every update reached
    // every replica by the simulator's own means) the full oracle applies.
    // S2 = after two all-pairs rounds of full-state exchange (precondition true by construction).
    for stage in ["S1 (network idle)", "S2 (after full-state exchange)"] {
        if stage.starts_with("S2") {
            for _round in 0..2 {
                for i in 0..n {
                    let mut all = sim.nodes[i].get_all_deltas();
                    all.sort_by(|a, b| a.key.cmp(&b.key));
                    for j in 0..n {
                        if i != j {
                            sim.nodes[j].apply_remote_deltas(all.clone());
                        }
                    }
                }
            }
        } else if !sim.message_queue.is_empty() {
            // cannot happen with all links healed and 300 ms elapsed; if it does, S1 is not
            // a quiescent point and is skipped rather than judged
            ctx.label("sim:S1_skipped_queue_not_empty");
            continue;
        }
        for key in KEYS {
            let served: Vec<Reply> = (0..n)
                .map(|i| Reply::from_resp(&sim.nodes[i].executor.execute(&Command::Get(key.to_string()))))
                .collect();
            let state: Vec<Option<String>> = (0..n).map(|i| sim.nodes[i].get_replicated_value(key)).collect();
            for i in 0..n {
                let want = match &state[i] {
                    Some(v) => Reply::bulk(v),
                    None => Reply::Nil,
                };
                if served[i] != want {
                    return Err(fail(format!(
                        "[{}] key {}: n{} serves {} but its replication state says {:?}",
                        stage,
                        key,
                        i + 1,
                        served[i].show(),
                        state[i]
                    )));
                }
            }
            let states_agree = state.iter().all(|s| *s == state[0]);
            if stage.starts_with("S1") {
                if !states_agree {
                    ctx.label("sim:S1_states_not_yet_equal");
                    continue;
                }
                ctx.label("sim:S1_full_oracle");
            }
            if served.iter().any(|r| *r != served[0]) {
                return Err(fail(format!(
                    "[{}] key {}: replicas answer GET differently: {:?}",
                    stage,
                    key,
                    served.iter().map(|r| r.show()).collect::<Vec<_>>()
                )));
            }
            if stage.starts_with("S2") {
                let want = match writes.get(key).and_then(|w| w.iter().max_by_key(|(s, _)| *s)) {
                    Some((_, Some(v))) => Reply::bulk(v),
                    _ => Reply::Nil,
                };
                if served[0] != want {
                    return Err(fail(format!(
                        "[{}] key {}: all replicas serve {} but the write with the greatest stamp is {} (writes: {:?})",
                        stage,
                        key,
                        served[0].show(),
                        want.show(),
                        writes.get(key)
                    )));
                }
            }
        }
    }
    Ok(())
}

// ---------------------------------------------------------------------------------------
// conditional SET sweep: {NX, XX} x {plain, GET} x key state at the accepting node
// ---------------------------------------------------------------------------------------

#[derive(Clone, Debug, Serialize, Deserialize)]
struct SweepCase {
    flag: String,
    get: bool,
    state: String,
}

const SWEEP_STATES: [&str; 8] = [
    "never_seen",
    "live_string",
    "live_string_with_ttl",
    "live_hash",
    "deleted_locally",
    "deleted_by_remote_delta",
    "expired_and_evicted",
    "remote_string_then_local_del_of_other_key",
];

fn sweep_cases() -> Vec<SweepCase> {
    let mut v = Vec::new();
    for flag in ["NX", "XX"] {
        for get in [false, true] {
            for state in SWEEP_STATES {
                v.push(SweepCase { flag: flag.to_string(), get, state: state.to_string() });
            }
        }
    }
    v
}

/// One node, one key brought into `state`, then `SET k new <flag> [GET]`. Judged on what the
/// command did to what the node serves versus whether it emitted a delta:
///  * nothing changed and a delta was emitted -> the writer and its peers part ways; tolerated
///    only in the listed shapes (KF-C06-01: NX on a live string; KF-C06-02: error reply);
///  * something changed and no delta was emitted -> an accepted write nobody else ever sees.
fn check_sweep(c: &SweepCase, ctx: &mut CaseCtx<'_>) -> Result<(), String> {
    use redis_sim::redis::SDS;
    use redis_sim::replication::ShardReplicaState;
    vcore::block_on(async {
        let node = ReplicatedShardActor::spawn(ReplicaId::new(1), ConsistencyLevel::Eventual, 0);
        let k = "ka";
        let mut remote = ShardReplicaState::new(ReplicaId::new(2), ConsistencyLevel::Eventual);
        remote.lamport_clock.time = 4;
        match c.state.as_str() {
            "never_seen" => {}
            "live_string" => {
                run(&node, &["SET", k, "old"]).await?;
            }
            "live_string_with_ttl" => {
                run(&node, &["SET", k, "old", "EX", "100"]).await?;
            }
            "live_hash" => {
                run(&node, &["HSET", k, "f1", "old"]).await?;
            }
            "deleted_locally" => {
                run(&node, &["SET", k, "old"]).await?;
                run(&node, &["DEL", k]).await?;
            }
            "deleted_by_remote_delta" => {
                node.apply_remote_delta(remote.record_write(k.to_string(), SDS::from_str("old"), None));
                if let Some(d) = remote.record_delete(k.to_string()) {
                    node.apply_remote_delta(d);
                }
            }
            "expired_and_evicted" => {
                run(&node, &["SET", k, "old", "PX", "1000"]).await?;
                node.evict_expired(VirtualTime::from_millis(2000)).await;
            }
            "remote_string_then_local_del_of_other_key" => {
                node.apply_remote_delta(remote.record_write(k.to_string(), SDS::from_str("old"), None));
                run(&node, &["DEL", "kb"]).await?;
            }
            other => return Err(format!("harness: unknown state {}", other)),
        }
        let _ = node.drain_pending_deltas().await;
        let before = observe(&node, k).await?;
        let state_before = node.get_snapshot().await.get(k).map(show_rv).unwrap_or_else(|| "(no entry)".into());
        let mut argv = vec!["SET", k, "new", c.flag.as_str()];
        if c.get {
            argv.push("GET");
        }
        let (reply, returned) = run(&node, &argv).await?;
        let mut deltas = node.drain_pending_deltas().await;
        if deltas.is_empty() {
            deltas.extend(returned);
        }
        let after = observe(&node, k).await?;
        let changed = before != after;
        ctx.nontrivial(&(c.flag.clone(), c.get, c.state.clone()));
        ctx.label(&format!(
            "sweep:{}:{}",
            if changed { "wrote" } else { "did_nothing" },
            if deltas.is_empty() { "no_delta" } else { "delta" }
        ));
        let what = format!(
            "key state '{}' (node served {}, replication state {}), then {} -> {}; node now serves {}; delta: {}",
            c.state,
            before.body.show(),
            state_before,
            argv.join(" "),
            reply.show(),
            after.body.show(),
            deltas.first().map(|d| show_rv(&d.value)).unwrap_or_else(|| "none".into())
        );
        if !changed && !deltas.is_empty() {
            let listed = if reply.is_error() {
                ctx.tolerate(KF2)
            } else if c.flag == "NX" && matches!(before.body, Body::Str(_)) {
                ctx.tolerate(KF1)
            } else {
                false
            };
            if !listed {
                return Err(format!("a conditional SET that did nothing emitted a delta: {}", what));
            }
        }
        if changed && deltas.is_empty() {
            return Err(format!("a conditional SET changed what the node serves but emitted no delta: {}", what));
        }
        Ok(())
    })
}

// ---------------------------------------------------------------------------------------
// probes: minimal reproducers, run through the check itself with nothing tolerated
// ---------------------------------------------------------------------------------------

fn cmd(node: u8, parts: &[&str]) -> Step {
    Step::Cmd { node, argv: sv(parts) }
}

fn reproducers() -> Vec<(&'static str, Case)> {
    let two = |steps: Vec<Step>| Case { nodes: 2, steps, redeliver_lost: false };
    vec![
        (KF1, two(vec![cmd(0, &["SET", "ka", "v1"]), Step::Deliver { idx: 0 }, cmd(0, &["SET", "ka", "v2", "NX"])])),
        (KF2, two(vec![cmd(0, &["SET", "ka", "v1"]), Step::Deliver { idx: 0 }, cmd(0, &["SET", "ka", "v2", "EX", "0"])])),
        (KF3, two(vec![cmd(0, &["HSET", "ka", "f1", "v1"]), Step::Deliver { idx: 0 }, cmd(0, &["DEL", "ka"])])),
        (
            KF4,
            two(vec![
                cmd(0, &["SET", "ka", "v1", "EX", "10"]),
                Step::Deliver { idx: 0 },
                cmd(0, &["SET", "ka", "v2"]),
                Step::Deliver { idx: 0 },
            ]),
        ),
        (
            KF5,
            two(vec![
                cmd(0, &["SET", "ka", "v1", "EX", "10"]),
                Step::Dup { idx: 0 },
                Step::Deliver { idx: 0 },
                Step::Tick { ms: 5000 },
                Step::Deliver { idx: 0 },
            ]),
        ),
        (
            KF6,
            two(vec![cmd(0, &["SET", "ka", "v1"]), cmd(1, &["HSET", "ka", "f1", "v2"]), Step::Deliver { idx: 0 }, Step::Deliver { idx: 0 }]),
        ),
        (KF7, two(vec![cmd(0, &["SET", "ka", "v1", "PX", "900"]), Step::Deliver { idx: 0 }])),
        (
            KF8,
            two(vec![
                cmd(0, &["HSET", "ka", "f3", "v1"]),
                cmd(1, &["SET", "ka", "v1"]),
                cmd(1, &["DEL", "ka"]),
                cmd(1, &["HSET", "ka", "f1", "v2"]),
                // n1's old hash reaches n2 after n2 re-created the key; n2's three deltas reach n1 in order
                Step::Deliver { idx: 0 },
                Step::Deliver { idx: 0 },
                Step::Deliver { idx: 0 },
                Step::Deliver { idx: 0 },
            ]),
        ),
    ]
}

fn main() {
    let args = vcore::parse_args();
    if std::env::var("C06_DEBUG_GEN").is_ok() {
        // generator smoke test with the default panic printer
        let mut runner = proptest::test_runner::TestRunner::deterministic();
        for _ in 0..200 {
            let _ = case_strategy(true).new_tree(&mut runner).map(|t| proptest::strategy::ValueTree::current(&t));
        }
        eprintln!("generator ok");
        return;
    }
    let s = Session::new(
        "C06",
        Level::Exploration,
        "actor_programs: 2-4 (thorough 5) production ReplicatedShardActors, programs of 4..40 (thorough 80) steps: client commands \
         (SET plain/NX/XX/EX/PX/GET/KEEPTTL/invalid expiry, DEL single/multi, INCR/DECR/INCRBY/DECRBY, APPEND, GETSET, HSET/HDEL/HINCRBY on 4 shared keys, \
         so type flips happen) at chosen nodes, interleaved with deliver-any/duplicate/drop/partition/heal on the multiset of in-flight deltas and clock ticks (none / sparse / dense 50-100 ms); \
         sim_programs: MultiNodeSimulation with SET/DEL programs, partitions, loss, healing. non-trivial = at least two nodes wrote the same key and at least one \
         delivery was reordered, duplicated, dropped or cut (actor tier) / a partition or loss was active (simulator tier); distinct by whole case",
        &args,
    );
    s.assume("every node is told the time by the harness through evict_expired(now) on all nodes at each tick (the actor has no other clock source), so all nodes are given one clock; that every node's TTLs then actually count down with that clock is not assumed but checked at every tick (PTTL/presence of every key at every node just before vs just after)");
    s.assume("quiescence: Q1 = every delta returned by execute / left in drain_pending_deltas has been applied at every other node at least once (only judged when no delta was lost for good); Q2 = additionally two all-pairs rounds of full-state exchange built from get_snapshot()");
    s.assume("served = replication state is judged through vcore::proj::client_view of the node's own get_snapshot() entry; expiry is compared as 'has a TTL' <-> expiry_ms is Some (the state holds a duration, not a deadline)");
    s.describe_check(
        "actor_programs",
        "oracles at Q1/Q2: A all nodes give identical TYPE/GET/HGETALL(multiset)/EXISTS/PTTL; B each equals the node's own client_view; C plain SET/DEL keys hold the write with the greatest observed stamp; D after eviction beyond every TTL, EXISTS agrees. Always on, no tolerance: fresh delta stamps, no CRDT-kind tie under one stamp, and at every clock tick (sparse or TTL-manager-like dense ticks, also at nodes that hold nothing to evict) every node's PTTL/presence of every key moves by exactly the time that passed",
    );
    s.describe_check(
        "sim_programs",
        "MultiNodeSimulation driven by generated SET/DEL/gossip/partition/heal/loss steps, then healed, flushed and fully exchanged: GET equal on all nodes, equal to the node's replication state, equal to the write with the greatest stamp",
    );

    s.describe_check(
        "coordinator_programs",
        "2-3 production ReplicatedShardedStates (16 shard actors each, delta sink attached); SET/DEL/INCR/APPEND/GET and multi-key DEL/MSET/MGET/EXISTS on keys of one shard and of different shards; what the coordinator forwards to the sink travels (any order, duplicates). Immediate oracle at the accepting node (an accepted write is served, multi-key reads agree with single-key reads), then agreement and served = state at Q1 (all forwarded deltas delivered) and Q2 (full-state exchange from snapshot_state())",
    );
    s.probe(coord::KF9, json!({"case": coord::coord_reproducer()}), || {
        s.strict_eval(|ctx| coord::check_coord(&coord::coord_reproducer(), ctx)).err()
    });
    for (id, case) in reproducers() {
        s.probe(id, json!({"case": case}), || s.strict_eval(|ctx| check_case(&case, ctx)).err());
    }

    let thorough = s.thorough();
    s.run_cases("actor_programs", s.scale(50_000, 1_000_000), || case_strategy(thorough), check_case);
    s.describe_check(
        "conditional_set_sweep",
        "exhaustive: {NX, XX} x {plain, GET} x 8 key states at the accepting node (never seen, live string, with TTL, live hash, deleted locally, deleted by a remote delta, expired and evicted, known only from a remote delta); a command that did nothing must not emit a delta except in the listed shapes (KF-C06-01 NX on a live string, KF-C06-02 error reply), a command that wrote must emit one",
    );
    s.run_enumerated("conditional_set_sweep", sweep_cases().into_iter(), check_sweep);
    s.run_cases("sim_programs", s.scale(30_000, 400_000), || sim_case_strategy(thorough), check_sim);
    s.run_cases("coordinator_programs", s.scale(5_000, 150_000), || coord::coord_case_strategy(thorough), coord::check_coord);
    s.finish();
}
