fn main() {
    eprintln!("C06: not built yet");
    std::process::exit(2);
}
