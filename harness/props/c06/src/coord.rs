//! C06, third tier: the coordinator. 2–3 production `ReplicatedShardedState`s (16 shard actors
//! each, delta sink attached as `server_persistent` attaches it) run client commands that
//! name one or several keys; what the coordinator forwards to the sink (the same delta object
//! it hands to the WAL and the gossip queue) is what travels to the other nodes.
//!
//! Oracles
//!  * immediately after an accepted command, at the accepting node: a write is served
//!    (SET/MSET -> GET returns the value, DEL -> GET returns nil and the reply counts the keys
//!    the node served before), a multi-key read agrees with the single-key reads
//!    (MGET = [GET ..], EXISTS k1 k2 = EXISTS k1 + EXISTS k2);
//!  * Q1 after every forwarded delta has been applied at every other node, and Q2 after a
//!    full-state exchange built from `snapshot_state()`: all nodes answer GET alike, and each
//!    answer equals the node's own `client_view` of its snapshot entry.

use proptest::prelude::*;
use redis_sim::production::ReplicatedShardedState;
use redis_sim::replication::{ConsistencyLevel, ReplicaId, ReplicatedValue, ReplicationConfig, ReplicationDelta};
use redis_sim::streaming::{delta_sink_channel, DeltaSinkReceiver};
use serde::{Deserialize, Serialize};
use std::collections::hash_map::DefaultHasher;
use std::collections::{BTreeMap, BTreeSet, HashMap};
use std::hash::{Hash, Hasher};
use std::sync::OnceLock;
use vcore::resp::{parse_zc, Reply};
use vcore::time::VerifTime;
use vcore::CaseCtx;

/// multi-key commands are routed wholesale to the first key's shard; a multi-key DEL forwards
/// at most the last key's delta
pub const KF9: &str = "KF-C06-09";

/// Same function as the private `production::replicated_state::hash_key`.
fn shard_of(key: &str) -> usize {
    let mut h = DefaultHasher::new();
    key.hash(&mut h);
    (h.finish() as usize) % 16
}

/// c-keys: [0],[1] share a shard, [2] and [3] live in two other shards.
fn keys() -> &'static Vec<String> {
    static K: OnceLock<Vec<String>> = OnceLock::new();
    K.get_or_init(|| {
        let mut by_shard: BTreeMap<usize, Vec<String>> = BTreeMap::new();
        for i in 0..300 {
            let k = format!("c{}", i);
            by_shard.entry(shard_of(&k)).or_default().push(k);
        }
        let g: Vec<&Vec<String>> = by_shard.values().filter(|v| v.len() >= 2).collect();
        assert!(g.len() >= 3, "coordinator key pool");
        vec![g[0][0].clone(), g[0][1].clone(), g[1][0].clone(), g[2][0].clone()]
    })
}

#[derive(Clone, Debug, Serialize, Deserialize)]
pub enum CStep {
    Cmd { node: u8, argv: Vec<String> },
    /// deliver one forwarded delta (any order)
    Deliver { idx: u16 },
    /// duplicate one in flight
    Dup { idx: u16 },
}

#[derive(Clone, Debug, Serialize, Deserialize)]
pub struct CoordCase {
    pub nodes: u8,
    pub steps: Vec<CStep>,
}

fn sv(parts: &[&str]) -> Vec<String> {
    parts.iter().map(|s| s.to_string()).collect()
}

pub fn coord_case_strategy(thorough: bool) -> impl Strategy<Value = CoordCase> {
    let max_steps = if thorough { 40 } else { 24 };
    let key = || (0usize..8).prop_map(|i| keys()[[0, 0, 1, 1, 2, 2, 3, 0][i]].clone());
    let val = || (1u32..10).prop_map(|v| v.to_string());
    let cmd = prop_oneof![
        8 => (key(), val()).prop_map(|(k, v)| vec!["SET".to_string(), k, v]),
        3 => key().prop_map(|k| vec!["DEL".to_string(), k]),
        4 => (key(), key()).prop_map(|(k, k2)| vec!["DEL".to_string(), k, k2]),
        1 => (key(), key(), key()).prop_map(|(k, k2, k3)| vec!["DEL".to_string(), k, k2, k3]),
        4 => (key(), val(), key(), val()).prop_map(|(k, v, k2, v2)| vec!["MSET".to_string(), k, v, k2, v2]),
        2 => (key(), key()).prop_map(|(k, k2)| vec!["MGET".to_string(), k, k2]),
        2 => (key(), key()).prop_map(|(k, k2)| vec!["EXISTS".to_string(), k, k2]),
        2 => key().prop_map(|k| vec!["GET".to_string(), k]),
        2 => key().prop_map(|k| vec!["INCR".to_string(), k]),
        1 => (key(), val()).prop_map(|(k, v)| vec!["APPEND".to_string(), k, v]),
    ];
    let step = prop_oneof![
        10 => (0u8..6, cmd).prop_map(|(node, argv)| CStep::Cmd { node, argv }),
        8 => any::<u16>().prop_map(|idx| CStep::Deliver { idx }),
        3 => Just(CStep::Deliver { idx: 0 }),
        1 => any::<u16>().prop_map(|idx| CStep::Dup { idx }),
    ];
    (2u8..=3, proptest::collection::vec(step, 3..max_steps)).prop_map(|(nodes, steps)| CoordCase { nodes, steps })
}

struct Coord {
    st: ReplicatedShardedState<VerifTime>,
    rx: DeltaSinkReceiver,
}

fn new_coord(id: u64) -> Coord {
    let cfg = ReplicationConfig {
        enabled: false,
        replica_id: id,
        consistency_level: ConsistencyLevel::Eventual,
        ..ReplicationConfig::default()
    };
    let mut st = ReplicatedShardedState::with_time_source(cfg, VerifTime::new(0));
    let (tx, rx) = delta_sink_channel();
    st.set_delta_sink(tx);
    Coord { st, rx }
}

async fn run(c: &Coord, argv: &[&str]) -> Result<Reply, String> {
    let a: Vec<Vec<u8>> = argv.iter().map(|s| s.as_bytes().to_vec()).collect();
    let cmd = parse_zc(&a).map_err(|e| format!("harness: {:?} does not parse: {}", argv, e))?;
    Ok(Reply::from_resp(&c.st.execute(cmd).await))
}

fn show_rv(v: &ReplicatedValue) -> String {
    let l = v.lww();
    format!(
        "{} outer=({},r{})",
        match l {
            Some(l) => format!(
                "{}@({},r{})",
                l.get().map(|s| format!("\"{}\"", vcore::show(s.as_bytes()))).unwrap_or_else(|| "<tomb>".into()),
                l.timestamp.time,
                l.timestamp.replica_id.0
            ),
            None => v.crdt_type().to_string(),
        },
        v.timestamp.time,
        v.timestamp.replica_id.0
    )
}

struct Sys<'a, 'b> {
    ctx: &'a mut CaseCtx<'b>,
    nodes: Vec<Coord>,
    inflight: Vec<(usize, usize, usize, ReplicationDelta)>,
    next_id: usize,
    /// keys named by a multi-key DEL or by an MSET (the observed trigger of KF-C06-09)
    multi: BTreeSet<String>,
    touched: BTreeSet<String>,
    writers: BTreeMap<String, BTreeSet<usize>>,
    trace: Vec<String>,
    tolerated: BTreeSet<String>,
}

impl<'a, 'b> Sys<'a, 'b> {
    fn fail(&self, msg: String) -> String {
        let n = self.trace.len();
        format!("{}\n  program so far:\n    {}", msg, self.trace[n.saturating_sub(50)..].join("\n    "))
    }

    /// A discrepancy is explained by KF-C06-09 only where the harness saw its trigger: a
    /// multi-key command naming the key (or being the judged command itself).
    fn judge(&mut self, explained: bool, what: &str, msg: String) -> Result<(), String> {
        if explained && self.ctx.finding_open(KF9) {
            if self.tolerated.insert(what.to_string()) {
                self.ctx.tolerate(KF9);
            }
            return Ok(());
        }
        Err(self.fail(msg))
    }

    async fn get(&self, node: usize, key: &str) -> Result<Reply, String> {
        run(&self.nodes[node], &["GET", key]).await
    }

    async fn command(&mut self, node: usize, argv: &[String]) -> Result<(), String> {
        let args: Vec<&str> = argv.iter().map(|s| s.as_str()).collect();
        let name = args[0].to_ascii_uppercase();
        let named: Vec<String> = match name.as_str() {
            "MSET" => args[1..].chunks(2).map(|c| c[0].to_string()).collect(),
            "SET" | "INCR" | "APPEND" | "GET" => vec![args[1].to_string()],
            _ => args[1..].iter().map(|s| s.to_string()).collect(),
        };
        let distinct: BTreeSet<String> = named.iter().cloned().collect();
        // a command of the multi-key family: the coordinator hands it to one shard actor as a
        // whole (MSET with a single pair included: the actor never records MSET)
        let multi = distinct.len() >= 2 || name == "MSET";
        let dup_keys = distinct.len() != named.len();
        for k in &distinct {
            self.touched.insert(k.clone());
        }
        // what the node serves before (for DEL's count)
        let mut served_before = 0i64;
        if name == "DEL" {
            for k in &distinct {
                if self.get(node, k).await? != Reply::Nil {
                    served_before += 1;
                }
            }
        }
        let reply = run(&self.nodes[node], &args).await?;
        let deltas = self.nodes[node].rx.drain();
        self.trace.push(format!(
            "n{} {} -> {}  forwarded: {}",
            node + 1,
            argv.join(" "),
            reply.show(),
            if deltas.is_empty() {
                "nothing".to_string()
            } else {
                deltas.iter().map(|d| format!("{}: {}", d.key, show_rv(&d.value))).collect::<Vec<_>>().join("; ")
            }
        ));
        self.ctx.label(&format!("coord:{}{}", name.to_lowercase(), if multi { "_multi" } else { "" }));
        let is_write = matches!(name.as_str(), "SET" | "DEL" | "MSET" | "INCR" | "APPEND");
        if is_write {
            for k in &distinct {
                self.writers.entry(k.clone()).or_default().insert(node);
            }
            if multi {
                for k in &distinct {
                    self.multi.insert(k.clone());
                }
            }
        }
        for d in deltas {
            for to in 0..self.nodes.len() {
                if to != node {
                    self.inflight.push((self.next_id, node, to, d.clone()));
                    self.next_id += 1;
                }
            }
        }
        // ---- immediate oracle at the accepting node
        let tag = format!("immediate:{}", argv.join(" "));
        match name.as_str() {
            "SET" => {
                let got = self.get(node, &named[0]).await?;
                if reply != Reply::ok() || got != Reply::bulk(args[2]) {
                    return Err(self.fail(format!("n{} {}: replied {} and then serves {}", node + 1, argv.join(" "), reply.show(), got.show())));
                }
            }
            "MSET" if !dup_keys => {
                for c in args[1..].chunks(2) {
                    let got = self.get(node, c[0]).await?;
                    if got != Reply::bulk(c[1]) {
                        self.judge(
                            multi,
                            &tag,
                            format!("n{} {}: acknowledged ({}), but the node itself serves {} for {}", node + 1, argv.join(" "), reply.show(), got.show(), c[0]),
                        )?;
                    }
                }
            }
            "DEL" => {
                if reply != Reply::Int(served_before) {
                    self.judge(
                        multi,
                        &tag,
                        format!("n{} {}: replied {} but the node served {} of these keys", node + 1, argv.join(" "), reply.show(), served_before),
                    )?;
                }
                for k in &distinct {
                    let got = self.get(node, k).await?;
                    if got != Reply::Nil {
                        self.judge(
                            multi,
                            &tag,
                            format!("n{} {}: acknowledged ({}), but the node still serves {} for {}", node + 1, argv.join(" "), reply.show(), got.show(), k),
                        )?;
                    }
                }
            }
            "MGET" => {
                let mut want = Vec::new();
                for k in &named {
                    want.push(self.get(node, k).await?);
                }
                if reply != Reply::Array(want.clone()) {
                    self.judge(
                        multi,
                        &tag,
                        format!("n{} {}: replied {} but the single-key reads give {}", node + 1, argv.join(" "), reply.show(), Reply::Array(want).show()),
                    )?;
                }
            }
            "EXISTS" => {
                let mut want = 0i64;
                for k in &named {
                    if self.get(node, k).await? != Reply::Nil {
                        want += 1;
                    }
                }
                if reply != Reply::Int(want) {
                    self.judge(
                        multi,
                        &tag,
                        format!("n{} {}: replied {} but {} of the named keys are served", node + 1, argv.join(" "), reply.show(), want),
                    )?;
                }
            }
            _ => {}
        }
        Ok(())
    }

    async fn deliver(&mut self, i: usize) {
        let (id, from, to, d) = self.inflight.remove(i);
        self.trace.push(format!("deliver #{} n{}->n{} {}: {}", id, from + 1, to + 1, d.key, show_rv(&d.value)));
        self.nodes[to].st.apply_remote_deltas(vec![d]);
    }

    async fn verdict(&mut self, stage: &str) -> Result<(), String> {
        let n = self.nodes.len();
        let mut snaps: Vec<HashMap<String, ReplicatedValue>> = Vec::new();
        for c in &self.nodes {
            snaps.push(c.st.snapshot_state().await);
        }
        let keys: Vec<String> = self.touched.iter().cloned().collect();
        for key in keys {
            let mut served = Vec::new();
            for i in 0..n {
                served.push(self.get(i, &key).await?);
            }
            let describe = (0..n)
                .map(|i| {
                    format!(
                        "\n      n{} serves {} | replication state: {}",
                        i + 1,
                        served[i].show(),
                        snaps[i].get(&key).map(show_rv).unwrap_or_else(|| "(no entry)".into())
                    )
                })
                .collect::<String>();
            let explained = self.multi.contains(&key);
            let tag = format!("{}:{}", stage, key);
            for i in 0..n {
                let want = match snaps[i].get(&key).map(vcore::proj::client_view) {
                    Some(v) if v["body"]["type"] == "string" => Reply::Bulk(
                        // values are plain ASCII digits here, so the escaped rendering is the value
                        v["body"]["value"].as_str().unwrap_or("").as_bytes().to_vec(),
                    ),
                    _ => Reply::Nil,
                };
                if served[i] != want {
                    self.judge(
                        explained,
                        &tag,
                        format!("[{}] key {}: n{} serves {} but its replication state says {}{}", stage, key, i + 1, served[i].show(), want.show(), describe),
                    )?;
                }
            }
            if served.iter().any(|r| *r != served[0]) {
                self.judge(explained, &tag, format!("[{}] key {}: replicas answer GET differently{}", stage, key, describe))?;
            }
        }
        Ok(())
    }
}

pub fn check_coord(case: &CoordCase, ctx: &mut CaseCtx<'_>) -> Result<(), String> {
    vcore::block_on(async {
        let n = (case.nodes as usize).clamp(2, 4);
        let mut sys = Sys {
            ctx,
            nodes: (0..n).map(|i| new_coord(i as u64 + 1)).collect(),
            inflight: Vec::new(),
            next_id: 0,
            multi: BTreeSet::new(),
            touched: BTreeSet::new(),
            writers: BTreeMap::new(),
            trace: Vec::new(),
            tolerated: BTreeSet::new(),
        };
        let mut reordered = false;
        for s in &case.steps {
            match s {
                CStep::Cmd { node, argv } => {
                    if argv.len() >= 2 {
                        sys.command(*node as usize % n, argv).await?;
                    }
                }
                CStep::Deliver { idx } => {
                    if !sys.inflight.is_empty() {
                        let i = (*idx as usize * sys.inflight.len()) >> 16;
                        if i > 0 {
                            reordered = true;
                        }
                        sys.deliver(i).await;
                    }
                }
                CStep::Dup { idx } => {
                    if !sys.inflight.is_empty() {
                        let i = (*idx as usize * sys.inflight.len()) >> 16;
                        let mut m = sys.inflight[i].clone();
                        m.0 = sys.next_id;
                        sys.next_id += 1;
                        sys.trace.push(format!("duplicate n{}->n{} {}", m.1 + 1, m.2 + 1, m.3.key));
                        sys.inflight.push(m);
                        reordered = true;
                    }
                }
            }
        }
        sys.trace.push("---- deliver everything in flight".into());
        while !sys.inflight.is_empty() {
            sys.deliver(0).await;
        }
        if sys.writers.values().any(|w| w.len() >= 2) && (reordered || !sys.multi.is_empty()) {
            let fp = serde_json::to_string(case).unwrap_or_default();
            sys.ctx.nontrivial(&fp);
        }
        if sys.multi.is_empty() {
            sys.ctx.label("coord:program_without_multi_key_write");
        }
        sys.verdict("Q1 (every forwarded delta delivered)").await?;
        for round in 0..2 {
            for i in 0..n {
                let snap = sys.nodes[i].st.snapshot_state().await;
                let mut ks: Vec<&String> = snap.keys().collect();
                ks.sort();
                let ds: Vec<ReplicationDelta> = ks
                    .iter()
                    .map(|k| ReplicationDelta::new((*k).clone(), snap[*k].clone(), ReplicaId::new(i as u64 + 1)))
                    .collect();
                for j in 0..n {
                    if i != j {
                        sys.nodes[j].st.apply_remote_deltas(ds.clone());
                    }
                }
            }
            sys.trace.push(format!("full-state exchange round {} done", round + 1));
        }
        sys.verdict("Q2 (after full-state exchange)").await?;
        Ok(())
    })
}

/// n1: SET a 1; SET b 2 (same shard); both delivered; n1: DEL a b -> only b's tombstone is
/// forwarded: n2 keeps serving a.
pub fn coord_reproducer() -> CoordCase {
    let k = keys();
    CoordCase {
        nodes: 2,
        steps: vec![
            CStep::Cmd { node: 0, argv: sv(&["SET", &k[0], "1"]) },
            CStep::Cmd { node: 0, argv: sv(&["SET", &k[1], "2"]) },
            CStep::Deliver { idx: 0 },
            CStep::Deliver { idx: 0 },
            CStep::Cmd { node: 0, argv: sv(&["DEL", &k[0], &k[1]]) },
        ],
    }
}
