//! C06, third tier: the coordinator. 2–3 production `ReplicatedShardedState`s (16 shard actors
//! each, delta sink attached as `server_persistent` attaches it) run client commands that
//! name one or several keys; what the coordinator forwards to the sink (the same delta object
//! it hands to the WAL and the gossip queue) is what travels to the other nodes.
//!
//! Oracles
//!  * immediately after an accepted command, at the accepting node: a write is served
//!    (SET/MSET -> GET returns the value, DEL -> GET returns nil and the reply counts the keys
//!    the node served before), a multi-key read agrees with the single-key reads
//!    (MGET = [GET ..], EXISTS k1 k2 = EXISTS k1 + EXISTS k2);
//!  * Q1 after every forwarded delta has been applied at every other node, and Q2 after a
//!    full-state exchange built from `snapshot_state()`: all nodes answer GET / HGETALL alike,
//!    each answer equals the node's own `client_view` of its snapshot entry, and equals the
//!    per-slot LWW winner (string register, each hash field) over all forwarded deltas —
//!    i.e. what one-by-one delivery and merging yields.
//!
//! Delivery granularity: deltas reach a node singly (`Deliver`), as a generated BATCH of 1–6
//! in-flight deltas handed to `apply_remote_deltas` in one call (any order, duplicates,
//! several per key, several authors), or as a full-state batch (a peer's whole snapshot, the
//! anti-entropy / SyncResponse shape), optionally mixed with in-flight deltas (relay).
//! WAL: nodes can have a WAL attached the way `server_persistent` attaches it
//! (`spawn_wal_actor` + `set_wal_handle`, policies Always / EverySecond / No) over an in-memory
//! store whose append and fsync fail while a generated fault flag is set. Whatever the WAL
//! does, the oracles stay: a command that replied with an error must not have changed what
//! the accepting node serves, and whatever the accepting node serves must reach every replica.
//!
//! String keys and hash keys are separate pools and values are numeric, so that none of the
//! open actor-level findings is in play: this tier runs without any tolerance.

use proptest::prelude::*;
use redis_sim::production::ReplicatedShardedState;
use redis_sim::replication::{ConsistencyLevel, ReplicaId, ReplicatedValue, ReplicationConfig, ReplicationDelta};
use redis_sim::streaming::wal_config::{FsyncPolicy, WalConfig};
use redis_sim::streaming::{
    delta_sink_channel, spawn_wal_actor, DeltaSinkReceiver, InMemoryWalStore, WalError, WalFileWriter, WalStore,
};
use std::sync::atomic::{AtomicBool, Ordering};
use std::sync::Arc;
use serde::{Deserialize, Serialize};
use std::collections::hash_map::DefaultHasher;
use std::collections::{BTreeMap, BTreeSet, HashMap};
use std::hash::{Hash, Hasher};
use std::sync::OnceLock;
use vcore::resp::{parse_zc, Reply};
use vcore::time::VerifTime;
use vcore::CaseCtx;

/// multi-key commands are routed wholesale to the first key's shard; a multi-key DEL forwards
/// at most the last key's delta
pub const KF9: &str = "KF-C06-09";

/// Same function as the private `production::replicated_state::hash_key`.
fn shard_of(key: &str) -> usize {
    let mut h = DefaultHasher::new();
    key.hash(&mut h);
    (h.finish() as usize) % 16
}

/// c-keys: [0],[1] share a shard, [2] and [3] live in two other shards.
fn keys() -> &'static Vec<String> {
    static K: OnceLock<Vec<String>> = OnceLock::new();
    K.get_or_init(|| {
        let mut by_shard: BTreeMap<usize, Vec<String>> = BTreeMap::new();
        for i in 0..300 {
            let k = format!("c{}", i);
            by_shard.entry(shard_of(&k)).or_default().push(k);
        }
        let g: Vec<&Vec<String>> = by_shard.values().filter(|v| v.len() >= 2).collect();
        assert!(g.len() >= 3, "coordinator key pool");
        vec![g[0][0].clone(), g[0][1].clone(), g[1][0].clone(), g[2][0].clone()]
    })
}

/// hash keys: one in the shard of keys()[0], one elsewhere
fn hkeys() -> &'static Vec<String> {
    static K: OnceLock<Vec<String>> = OnceLock::new();
    K.get_or_init(|| {
        let home = shard_of(&keys()[0]);
        let mut same = None;
        let mut other = None;
        for i in 0..400 {
            let k = format!("h{}", i);
            if shard_of(&k) == home {
                same.get_or_insert(k);
            } else {
                other.get_or_insert(k);
            }
        }
        vec![same.expect("hash key pool"), other.expect("hash key pool")]
    })
}

fn is_hash_key(k: &str) -> bool {
    hkeys().iter().any(|h| h == k)
}

#[derive(Clone, Debug, Serialize, Deserialize)]
pub enum CStep {
    Cmd { node: u8, argv: Vec<String> },
    /// deliver one forwarded delta (any order)
    Deliver { idx: u16 },
    /// duplicate one in flight
    Dup { idx: u16 },
    /// hand 1-6 of the deltas in flight to node `to` to `apply_remote_deltas` in ONE call, in
    /// the order of `picks` (fractions of the list; the same delta may be picked twice)
    Batch { to: u8, picks: Vec<u16> },
    /// full-state batch: every entry of `from`'s snapshot_state() as one call at `to` (the
    /// anti-entropy shape), with the picked in-flight deltas for `to` in front or behind
    Sync { from: u8, to: u8, picks: Vec<u16>, in_front: bool },
    /// the WAL store of `node` starts / stops failing (append: disk full, fsync: error)
    WalFault { node: u8, on: bool },
}

#[derive(Clone, Debug, Serialize, Deserialize)]
pub struct CoordCase {
    pub nodes: u8,
    pub steps: Vec<CStep>,
    /// 0 = no WAL attached, 1 = fsync Always, 2 = EverySecond, 3 = No
    #[serde(default)]
    pub wal: u8,
}

fn sv(parts: &[&str]) -> Vec<String> {
    parts.iter().map(|s| s.to_string()).collect()
}

pub fn coord_case_strategy(thorough: bool) -> impl Strategy<Value = CoordCase> {
    let max_steps = if thorough { 48 } else { 28 };
    let key = || (0usize..8).prop_map(|i| keys()[[0, 0, 1, 1, 2, 2, 3, 0][i]].clone());
    let hkey = || (0usize..3).prop_map(|i| hkeys()[[0, 0, 1][i]].clone());
    let fld = || (0usize..3).prop_map(|i| ["f1", "f2", "f3"][i].to_string());
    let val = || (1u32..10).prop_map(|v| v.to_string());
    let cmd = prop_oneof![
        8 => (key(), val()).prop_map(|(k, v)| vec!["SET".to_string(), k, v]),
        3 => key().prop_map(|k| vec!["DEL".to_string(), k]),
        3 => (key(), key()).prop_map(|(k, k2)| vec!["DEL".to_string(), k, k2]),
        1 => (key(), key(), key()).prop_map(|(k, k2, k3)| vec!["DEL".to_string(), k, k2, k3]),
        3 => (key(), val(), key(), val()).prop_map(|(k, v, k2, v2)| vec!["MSET".to_string(), k, v, k2, v2]),
        1 => (key(), key()).prop_map(|(k, k2)| vec!["MGET".to_string(), k, k2]),
        1 => (key(), key()).prop_map(|(k, k2)| vec!["EXISTS".to_string(), k, k2]),
        1 => key().prop_map(|k| vec!["GET".to_string(), k]),
        2 => key().prop_map(|k| vec!["INCR".to_string(), k]),
        1 => (key(), val()).prop_map(|(k, v)| vec!["APPEND".to_string(), k, v]),
        7 => (hkey(), fld(), val()).prop_map(|(k, f, v)| vec!["HSET".to_string(), k, f, v]),
        2 => (hkey(), fld(), val(), fld(), val()).prop_map(|(k, f, v, f2, v2)| vec!["HSET".to_string(), k, f, v, f2, v2]),
        3 => (hkey(), fld()).prop_map(|(k, f)| vec!["HDEL".to_string(), k, f]),
        2 => (hkey(), fld()).prop_map(|(k, f)| vec!["HINCRBY".to_string(), k, f, "3".to_string()]),
        1 => hkey().prop_map(|k| vec!["HGETALL".to_string(), k]),
    ];
    let picks = || proptest::collection::vec(any::<u16>(), 1..7);
    let step = prop_oneof![
        12 => (0u8..6, cmd).prop_map(|(node, argv)| CStep::Cmd { node, argv }),
        5 => any::<u16>().prop_map(|idx| CStep::Deliver { idx }),
        2 => Just(CStep::Deliver { idx: 0 }),
        1 => any::<u16>().prop_map(|idx| CStep::Dup { idx }),
        6 => (0u8..6, picks()).prop_map(|(to, picks)| CStep::Batch { to, picks }),
        2 => (0u8..6, 0u8..6, proptest::collection::vec(any::<u16>(), 0..4), any::<bool>())
            .prop_map(|(from, to, picks, in_front)| CStep::Sync { from, to, picks, in_front }),
        2 => (0u8..6, prop::bool::weighted(0.7)).prop_map(|(node, on)| CStep::WalFault { node, on }),
    ];
    let wal = prop_oneof![2 => Just(0u8), 4 => Just(1u8), 1 => Just(2u8), 1 => Just(3u8)];
    (2u8..=3, proptest::collection::vec(step, 3..max_steps), wal).prop_map(|(nodes, steps, wal)| CoordCase { nodes, steps, wal })
}

/// In-memory WAL store whose writers fail while the shared flag is set.
#[derive(Clone)]
struct FaultyWalStore {
    inner: InMemoryWalStore,
    fault: Arc<AtomicBool>,
}

struct FaultyWriter {
    inner: <InMemoryWalStore as WalStore>::Writer,
    fault: Arc<AtomicBool>,
}

impl WalFileWriter for FaultyWriter {
    fn append(&mut self, data: &[u8]) -> Result<u64, WalError> {
        if self.fault.load(Ordering::SeqCst) {
            return Err(WalError::DiskFull);
        }
        self.inner.append(data)
    }
    fn sync(&mut self) -> Result<(), WalError> {
        if self.fault.load(Ordering::SeqCst) {
            return Err(WalError::FsyncFailed("injected by the harness".into()));
        }
        self.inner.sync()
    }
    fn size(&self) -> u64 {
        self.inner.size()
    }
}

impl WalStore for FaultyWalStore {
    type Writer = FaultyWriter;
    type Reader = <InMemoryWalStore as WalStore>::Reader;
    fn create(&self, name: &str) -> Result<Self::Writer, WalError> {
        Ok(FaultyWriter { inner: self.inner.create(name)?, fault: self.fault.clone() })
    }
    fn open_read(&self, name: &str) -> Result<Self::Reader, WalError> {
        self.inner.open_read(name)
    }
    fn list(&self) -> Result<Vec<String>, WalError> {
        self.inner.list()
    }
    fn delete(&self, name: &str) -> Result<(), WalError> {
        self.inner.delete(name)
    }
    fn exists(&self, name: &str) -> Result<bool, WalError> {
        self.inner.exists(name)
    }
}

struct Coord {
    st: ReplicatedShardedState<VerifTime>,
    rx: DeltaSinkReceiver,
    wal_fault: Arc<AtomicBool>,
}

fn new_coord(id: u64, wal: u8) -> Result<Coord, String> {
    let cfg = ReplicationConfig {
        enabled: false,
        replica_id: id,
        consistency_level: ConsistencyLevel::Eventual,
        ..ReplicationConfig::default()
    };
    let mut st = ReplicatedShardedState::with_time_source(cfg, VerifTime::new(0));
    let (tx, rx) = delta_sink_channel();
    st.set_delta_sink(tx);
    let wal_fault = Arc::new(AtomicBool::new(false));
    let policy = match wal {
        1 => Some(FsyncPolicy::Always),
        2 => Some(FsyncPolicy::EverySecond),
        3 => Some(FsyncPolicy::No),
        _ => None,
    };
    if let Some(fsync_policy) = policy {
        // as server_persistent does: spawn the WAL actor over a store and hand its handle to
        // the replicated state (the group-commit wait is zero: no verdict depends on time)
        let store = FaultyWalStore { inner: InMemoryWalStore::new(), fault: wal_fault.clone() };
        let wc = WalConfig {
            enabled: true,
            wal_dir: std::path::PathBuf::from("/nonexistent/verif-wal"),
            fsync_policy,
            max_file_size: 1 << 20,
            group_commit_max_entries: 8,
            group_commit_max_wait: std::time::Duration::ZERO,
            truncation_check_interval: std::time::Duration::from_secs(3600),
        };
        let (handle, _task) = spawn_wal_actor(store, wc).map_err(|e| format!("harness: WAL actor does not start: {}", e))?;
        st.set_wal_handle(handle);
    }
    Ok(Coord { st, rx, wal_fault })
}

async fn run(c: &Coord, argv: &[&str]) -> Result<Reply, String> {
    let a: Vec<Vec<u8>> = argv.iter().map(|s| s.as_bytes().to_vec()).collect();
    let cmd = parse_zc(&a).map_err(|e| format!("harness: {:?} does not parse: {}", argv, e))?;
    Ok(Reply::from_resp(&c.st.execute(cmd).await))
}

type Stamp = (u64, u64);

/// (slot, stamp, live content): slot "" = the string register, otherwise a hash field
fn slots_of(v: &ReplicatedValue) -> Vec<(String, Stamp, Option<Vec<u8>>)> {
    if let Some(l) = v.lww() {
        return vec![(
            String::new(),
            (l.timestamp.time, l.timestamp.replica_id.0),
            l.get().map(|s| s.as_bytes().to_vec()),
        )];
    }
    let mut out: Vec<(String, Stamp, Option<Vec<u8>>)> = v
        .get_hash()
        .map(|h| {
            h.iter()
                .map(|(f, l)| (f.clone(), (l.timestamp.time, l.timestamp.replica_id.0), l.get().map(|s| s.as_bytes().to_vec())))
                .collect()
        })
        .unwrap_or_default();
    out.sort();
    out
}

fn show_rv(v: &ReplicatedValue) -> String {
    let body: Vec<String> = slots_of(v)
        .iter()
        .map(|(f, st, val)| {
            format!(
                "{}{}@({},r{})",
                if f.is_empty() { String::new() } else { format!("{}=", f) },
                val.as_ref().map(|b| format!("\"{}\"", vcore::show(b))).unwrap_or_else(|| "<tomb>".into()),
                st.0,
                st.1
            )
        })
        .collect();
    format!("{}{{{}}} outer=({},r{})", v.crdt_type(), body.join(" "), v.timestamp.time, v.timestamp.replica_id.0)
}

struct Sys<'a, 'b> {
    ctx: &'a mut CaseCtx<'b>,
    nodes: Vec<Coord>,
    inflight: Vec<(usize, usize, usize, ReplicationDelta)>,
    next_id: usize,
    /// keys named by a multi-key DEL or by an MSET (the observed trigger of KF-C06-09)
    multi: BTreeSet<String>,
    touched: BTreeSet<String>,
    writers: BTreeMap<String, BTreeSet<usize>>,
    trace: Vec<String>,
    tolerated: BTreeSet<String>,
    /// per (key, slot): the greatest stamp seen on any forwarded delta and its content — what
    /// merging every delta one by one yields
    winners: BTreeMap<(String, String), (Stamp, Option<Vec<u8>>)>,
    batches: u32,
}

impl<'a, 'b> Sys<'a, 'b> {
    fn fail(&self, msg: String) -> String {
        let n = self.trace.len();
        format!("{}\n  program so far:\n    {}", msg, self.trace[n.saturating_sub(50)..].join("\n    "))
    }

    /// A discrepancy is explained by KF-C06-09 only where the harness saw its trigger: a
    /// multi-key command naming the key (or being the judged command itself).
    fn judge(&mut self, explained: bool, what: &str, msg: String) -> Result<(), String> {
        if explained && self.ctx.finding_open(KF9) {
            if self.tolerated.insert(what.to_string()) {
                self.ctx.tolerate(KF9);
            }
            return Ok(());
        }
        Err(self.fail(msg))
    }

    async fn get(&self, node: usize, key: &str) -> Result<Reply, String> {
        run(&self.nodes[node], &["GET", key]).await
    }

    /// what a client reads: GET for a string key, HGETALL (as sorted pairs) for a hash key
    async fn served(&self, node: usize, key: &str) -> Result<Reply, String> {
        if is_hash_key(key) {
            Ok(run(&self.nodes[node], &["HGETALL", key]).await?.sorted_pairs())
        } else {
            self.get(node, key).await
        }
    }

    fn expected_from_slots(key: &str, slots: Vec<(String, Option<Vec<u8>>)>) -> Reply {
        if is_hash_key(key) {
            let mut pairs: Vec<(Vec<u8>, Vec<u8>)> =
                slots.into_iter().filter_map(|(f, v)| v.map(|v| (f.into_bytes(), v))).collect();
            pairs.sort();
            Reply::Array(pairs.into_iter().flat_map(|(f, v)| [Reply::Bulk(f), Reply::Bulk(v)]).collect())
        } else {
            match slots.into_iter().find(|(f, _)| f.is_empty()).and_then(|(_, v)| v) {
                Some(v) => Reply::Bulk(v),
                None => Reply::Nil,
            }
        }
    }

    fn note_forwarded(&mut self, d: &ReplicationDelta) {
        for (f, st, val) in slots_of(&d.value) {
            let e = self.winners.entry((d.key.clone(), f)).or_insert(((0, 0), None));
            if st > e.0 {
                *e = (st, val);
            }
        }
    }

    fn pick_for(&self, to: usize, picks: &[u16]) -> Vec<usize> {
        let mine: Vec<usize> = (0..self.inflight.len()).filter(|&i| self.inflight[i].2 == to).collect();
        if mine.is_empty() {
            return Vec::new();
        }
        picks.iter().take(6).map(|p| mine[(*p as usize * mine.len()) >> 16]).collect()
    }

    /// One `apply_remote_deltas` call with several deltas.
    async fn batch(&mut self, to: usize, picks: &[u16], sync_from: Option<(usize, bool)>) {
        let chosen = self.pick_for(to, picks);
        let mut batch: Vec<ReplicationDelta> = chosen.iter().map(|&i| self.inflight[i].3.clone()).collect();
        let mut desc: Vec<String> =
            chosen.iter().map(|&i| format!("#{} {}: {}", self.inflight[i].0, self.inflight[i].3.key, show_rv(&self.inflight[i].3.value))).collect();
        if let Some((from, in_front)) = sync_from {
            let snap = self.nodes[from].st.snapshot_state().await;
            let mut ks: Vec<&String> = snap.keys().collect();
            ks.sort();
            let full: Vec<ReplicationDelta> = ks
                .iter()
                .map(|k| ReplicationDelta::new((*k).clone(), snap[*k].clone(), ReplicaId::new(from as u64 + 1)))
                .collect();
            let fdesc: Vec<String> = full.iter().map(|d| format!("state(n{}) {}: {}", from + 1, d.key, show_rv(&d.value))).collect();
            if in_front {
                batch = full.into_iter().chain(batch).collect();
                desc = fdesc.into_iter().chain(desc).collect();
            } else {
                batch.extend(full);
                desc.extend(fdesc);
            }
            self.ctx.label("coord:full_state_batch");
        }
        if batch.is_empty() {
            return;
        }
        let per_key: BTreeSet<&String> = batch.iter().map(|d| &d.key).collect();
        if per_key.len() < batch.len() {
            self.ctx.label("coord:batch_with_several_deltas_of_one_key");
        }
        let authors: BTreeSet<u64> = batch.iter().map(|d| d.source_replica.0).collect();
        if authors.len() >= 2 {
            self.ctx.label("coord:batch_with_several_authors");
        }
        if batch.len() >= 2 {
            self.batches += 1;
        }
        self.ctx.label("coord:batch");
        self.trace.push(format!("batch of {} -> n{} in one apply_remote_deltas call: [{}]", batch.len(), to + 1, desc.join(" | ")));
        self.nodes[to].st.apply_remote_deltas(batch);
        // the picked deltas have now been delivered
        let mut gone: Vec<usize> = chosen;
        gone.sort();
        gone.dedup();
        for i in gone.into_iter().rev() {
            self.inflight.remove(i);
        }
    }

    async fn command(&mut self, node: usize, argv: &[String]) -> Result<(), String> {
        let args: Vec<&str> = argv.iter().map(|s| s.as_str()).collect();
        let name = args[0].to_ascii_uppercase();
        let named: Vec<String> = match name.as_str() {
            "MSET" => args[1..].chunks(2).map(|c| c[0].to_string()).collect(),
            "SET" | "INCR" | "APPEND" | "GET" | "HSET" | "HDEL" | "HINCRBY" | "HGETALL" => vec![args[1].to_string()],
            _ => args[1..].iter().map(|s| s.to_string()).collect(),
        };
        let distinct: BTreeSet<String> = named.iter().cloned().collect();
        // a command of the multi-key family: the coordinator hands it to one shard actor as a
        // whole (MSET with a single pair included: the actor never records MSET)
        let multi = distinct.len() >= 2 || name == "MSET";
        let dup_keys = distinct.len() != named.len();
        for k in &distinct {
            self.touched.insert(k.clone());
        }
        // what the node serves before (for DEL's count)
        let mut served_before = 0i64;
        if name == "DEL" {
            for k in &distinct {
                if self.get(node, k).await? != Reply::Nil {
                    served_before += 1;
                }
            }
        }
        let is_write_cmd = matches!(name.as_str(), "SET" | "DEL" | "MSET" | "INCR" | "APPEND" | "HSET" | "HDEL" | "HINCRBY");
        let mut before: Vec<(String, Reply)> = Vec::new();
        if is_write_cmd {
            for k in &distinct {
                before.push((k.clone(), self.served(node, k).await?));
            }
        }
        let wal_failing = self.nodes[node].wal_fault.load(Ordering::SeqCst);
        let reply = run(&self.nodes[node], &args).await?;
        let deltas = self.nodes[node].rx.drain();
        self.trace.push(format!(
            "n{} {} -> {}  forwarded: {}",
            node + 1,
            argv.join(" "),
            reply.show(),
            if deltas.is_empty() {
                "nothing".to_string()
            } else {
                deltas.iter().map(|d| format!("{}: {}", d.key, show_rv(&d.value))).collect::<Vec<_>>().join("; ")
            }
        ));
        self.ctx.label(&format!("coord:{}{}", name.to_lowercase(), if multi { "_multi" } else { "" }));
        if is_write_cmd && wal_failing {
            self.ctx.label("coord:write_while_wal_failing");
        }
        // a command that replied with an error must not be visible: not here, and (through the
        // Q1/Q2 oracles) not anywhere
        if reply.is_error() {
            self.ctx.label("coord:error_reply");
            for (k, b) in &before {
                let now = self.served(node, k).await?;
                if now != *b {
                    return Err(self.fail(format!(
                        "n{} {}: the client got {} but the command took effect on this node: {} served {} before and {} now{}",
                        node + 1,
                        argv.join(" "),
                        reply.show(),
                        k,
                        b.show(),
                        now.show(),
                        if wal_failing { " (the node's WAL store is failing)" } else { "" }
                    )));
                }
            }
        }
        let is_write = matches!(name.as_str(), "SET" | "DEL" | "MSET" | "INCR" | "APPEND" | "HSET" | "HDEL" | "HINCRBY");
        if is_write {
            for k in &distinct {
                self.writers.entry(k.clone()).or_default().insert(node);
            }
            if multi {
                for k in &distinct {
                    self.multi.insert(k.clone());
                }
            }
        }
        for d in deltas {
            self.note_forwarded(&d);
            for to in 0..self.nodes.len() {
                if to != node {
                    self.inflight.push((self.next_id, node, to, d.clone()));
                    self.next_id += 1;
                }
            }
        }
        // ---- immediate oracle at the accepting node
        let tag = format!("immediate:{}", argv.join(" "));
        match name.as_str() {
            "SET" => {
                let got = self.get(node, &named[0]).await?;
                if reply != Reply::ok() || got != Reply::bulk(args[2]) {
                    return Err(self.fail(format!("n{} {}: replied {} and then serves {}", node + 1, argv.join(" "), reply.show(), got.show())));
                }
            }
            "MSET" if !dup_keys => {
                for c in args[1..].chunks(2) {
                    let got = self.get(node, c[0]).await?;
                    if got != Reply::bulk(c[1]) {
                        self.judge(
                            multi,
                            &tag,
                            format!("n{} {}: acknowledged ({}), but the node itself serves {} for {}", node + 1, argv.join(" "), reply.show(), got.show(), c[0]),
                        )?;
                    }
                }
            }
            "DEL" => {
                if reply != Reply::Int(served_before) {
                    self.judge(
                        multi,
                        &tag,
                        format!("n{} {}: replied {} but the node served {} of these keys", node + 1, argv.join(" "), reply.show(), served_before),
                    )?;
                }
                for k in &distinct {
                    let got = self.get(node, k).await?;
                    if got != Reply::Nil {
                        self.judge(
                            multi,
                            &tag,
                            format!("n{} {}: acknowledged ({}), but the node still serves {} for {}", node + 1, argv.join(" "), reply.show(), got.show(), k),
                        )?;
                    }
                }
            }
            "HSET" => {
                for c in args[2..].chunks(2).rev() {
                    // (a field named twice takes its last value)
                    if args[2..].chunks(2).filter(|x| x[0] == c[0]).count() > 1 {
                        continue;
                    }
                    let got = run(&self.nodes[node], &["HGET", args[1], c[0]]).await?;
                    if got != Reply::bulk(c[1]) {
                        return Err(self.fail(format!("n{} {}: replied {} and then serves {} for field {}", node + 1, argv.join(" "), reply.show(), got.show(), c[0])));
                    }
                }
            }
            "HDEL" => {
                let got = run(&self.nodes[node], &["HGET", args[1], args[2]]).await?;
                if got != Reply::Nil {
                    return Err(self.fail(format!("n{} {}: replied {} and still serves {}", node + 1, argv.join(" "), reply.show(), got.show())));
                }
            }
            "MGET" => {
                let mut want = Vec::new();
                for k in &named {
                    want.push(self.get(node, k).await?);
                }
                if reply != Reply::Array(want.clone()) {
                    self.judge(
                        multi,
                        &tag,
                        format!("n{} {}: replied {} but the single-key reads give {}", node + 1, argv.join(" "), reply.show(), Reply::Array(want).show()),
                    )?;
                }
            }
            "EXISTS" => {
                let mut want = 0i64;
                for k in &named {
                    if self.get(node, k).await? != Reply::Nil {
                        want += 1;
                    }
                }
                if reply != Reply::Int(want) {
                    self.judge(
                        multi,
                        &tag,
                        format!("n{} {}: replied {} but {} of the named keys are served", node + 1, argv.join(" "), reply.show(), want),
                    )?;
                }
            }
            _ => {}
        }
        Ok(())
    }

    async fn deliver(&mut self, i: usize) {
        let (id, from, to, d) = self.inflight.remove(i);
        self.trace.push(format!("deliver #{} n{}->n{} {}: {}", id, from + 1, to + 1, d.key, show_rv(&d.value)));
        self.nodes[to].st.apply_remote_deltas(vec![d]);
    }

    async fn verdict(&mut self, stage: &str) -> Result<(), String> {
        let n = self.nodes.len();
        let mut snaps: Vec<HashMap<String, ReplicatedValue>> = Vec::new();
        for c in &self.nodes {
            snaps.push(c.st.snapshot_state().await);
        }
        let keys: Vec<String> = self.touched.iter().cloned().collect();
        for key in keys {
            let mut served = Vec::new();
            for i in 0..n {
                served.push(self.served(i, &key).await?);
            }
            let describe = (0..n)
                .map(|i| {
                    format!(
                        "\n      n{} serves {} | replication state: {}",
                        i + 1,
                        served[i].show(),
                        snaps[i].get(&key).map(show_rv).unwrap_or_else(|| "(no entry)".into())
                    )
                })
                .collect::<String>();
            let explained = self.multi.contains(&key);
            let tag = format!("{}:{}", stage, key);
            // served = the node's own replication state (through vcore::proj::client_view)
            for i in 0..n {
                let view = snaps[i].get(&key).map(vcore::proj::client_view);
                // values are plain ASCII here, so the escaped rendering of the view is the value
                let slots: Vec<(String, Option<Vec<u8>>)> = match &view {
                    Some(v) if v["body"]["type"] == "string" => {
                        vec![(String::new(), Some(v["body"]["value"].as_str().unwrap_or("").as_bytes().to_vec()))]
                    }
                    Some(v) if v["body"]["type"] == "hash" => v["body"]["fields"]
                        .as_array()
                        .map(|a| {
                            a.iter()
                                .map(|p| (p[0].as_str().unwrap_or("").to_string(), Some(p[1].as_str().unwrap_or("").as_bytes().to_vec())))
                                .collect()
                        })
                        .unwrap_or_default(),
                    _ => Vec::new(),
                };
                let type_ok = match &view {
                    Some(v) if v["body"]["type"] == "string" => !is_hash_key(&key),
                    Some(v) if v["body"]["type"] == "hash" => is_hash_key(&key),
                    _ => true,
                };
                let want = Self::expected_from_slots(&key, slots);
                if served[i] != want || !type_ok {
                    self.judge(
                        explained,
                        &tag,
                        format!("[{}] key {}: n{} serves {} but its replication state says {}{}", stage, key, i + 1, served[i].show(), want.show(), describe),
                    )?;
                }
            }
            if served.iter().any(|r| *r != served[0]) {
                self.judge(explained, &tag, format!("[{}] key {}: replicas answer reads differently{}", stage, key, describe))?;
            }
            // per-slot LWW winner over every forwarded delta = what merging them one by one
            // gives, whatever the batching
            let slots: Vec<(String, Option<Vec<u8>>)> = self
                .winners
                .iter()
                .filter(|((k, _), _)| *k == key)
                .map(|((_, f), (_, v))| (f.clone(), v.clone()))
                .collect();
            let want = Self::expected_from_slots(&key, slots);
            for i in 0..n {
                if served[i] != want {
                    let ws: Vec<String> = self
                        .winners
                        .iter()
                        .filter(|((k, _), _)| *k == key)
                        .map(|((_, f), (st, v))| {
                            format!("{}{}@({},r{})", if f.is_empty() { String::new() } else { format!("{}=", f) }, v.as_ref().map(|b| vcore::show(b)).unwrap_or_else(|| "<tomb>".into()), st.0, st.1)
                        })
                        .collect();
                    self.judge(
                        explained,
                        &tag,
                        format!(
                            "[{}] key {}: n{} serves {} but merging every forwarded delta gives {} (greatest stamp per slot: {}){}",
                            stage, key, i + 1, served[i].show(), want.show(), ws.join(" "), describe
                        ),
                    )?;
                }
            }
            self.ctx.label("coord:winner_checked");
        }
        Ok(())
    }
}

pub fn check_coord(case: &CoordCase, ctx: &mut CaseCtx<'_>) -> Result<(), String> {
    vcore::block_on(async {
        let n = (case.nodes as usize).clamp(2, 4);
        let mut sys = Sys {
            ctx,
            nodes: (0..n).map(|i| new_coord(i as u64 + 1, case.wal)).collect::<Result<Vec<_>, _>>()?,
            inflight: Vec::new(),
            next_id: 0,
            multi: BTreeSet::new(),
            touched: BTreeSet::new(),
            writers: BTreeMap::new(),
            trace: Vec::new(),
            tolerated: BTreeSet::new(),
            winners: BTreeMap::new(),
            batches: 0,
        };
        sys.ctx.label(["coord:wal_none", "coord:wal_always", "coord:wal_everysec", "coord:wal_no"][(case.wal as usize).min(3)]);
        let mut reordered = false;
        for s in &case.steps {
            match s {
                CStep::Cmd { node, argv } => {
                    if argv.len() >= 2 {
                        sys.command(*node as usize % n, argv).await?;
                    }
                }
                CStep::Deliver { idx } => {
                    if !sys.inflight.is_empty() {
                        let i = (*idx as usize * sys.inflight.len()) >> 16;
                        if i > 0 {
                            reordered = true;
                        }
                        sys.deliver(i).await;
                    }
                }
                CStep::WalFault { node, on } => {
                    let i = *node as usize % n;
                    if case.wal != 0 {
                        sys.nodes[i].wal_fault.store(*on, Ordering::SeqCst);
                        sys.trace.push(format!("WAL store of n{} {}", i + 1, if *on { "starts failing (append: disk full, fsync: error)" } else { "works again" }));
                        sys.ctx.label("coord:wal_fault_step");
                    }
                }
                CStep::Batch { to, picks } => {
                    sys.batch(*to as usize % n, picks, None).await;
                    reordered = true;
                }
                CStep::Sync { from, to, picks, in_front } => {
                    let (from, to) = (*from as usize % n, *to as usize % n);
                    if from != to {
                        sys.batch(to, picks, Some((from, *in_front))).await;
                        reordered = true;
                    }
                }
                CStep::Dup { idx } => {
                    if !sys.inflight.is_empty() {
                        let i = (*idx as usize * sys.inflight.len()) >> 16;
                        let mut m = sys.inflight[i].clone();
                        m.0 = sys.next_id;
                        sys.next_id += 1;
                        sys.trace.push(format!("duplicate n{}->n{} {}", m.1 + 1, m.2 + 1, m.3.key));
                        sys.inflight.push(m);
                        reordered = true;
                    }
                }
            }
        }
        sys.trace.push("---- deliver everything in flight".into());
        while !sys.inflight.is_empty() {
            sys.deliver(0).await;
        }
        if sys.writers.values().any(|w| w.len() >= 2) && (reordered || !sys.multi.is_empty()) {
            let fp = serde_json::to_string(case).unwrap_or_default();
            sys.ctx.nontrivial(&fp);
        }
        if sys.multi.is_empty() {
            sys.ctx.label("coord:program_without_multi_key_write");
        }
        if sys.batches > 0 {
            sys.ctx.label("coord:program_with_batches");
        }
        sys.verdict("Q1 (every forwarded delta delivered)").await?;
        for round in 0..2 {
            for i in 0..n {
                let snap = sys.nodes[i].st.snapshot_state().await;
                let mut ks: Vec<&String> = snap.keys().collect();
                ks.sort();
                let ds: Vec<ReplicationDelta> = ks
                    .iter()
                    .map(|k| ReplicationDelta::new((*k).clone(), snap[*k].clone(), ReplicaId::new(i as u64 + 1)))
                    .collect();
                for j in 0..n {
                    if i != j {
                        sys.nodes[j].st.apply_remote_deltas(ds.clone());
                    }
                }
            }
            sys.trace.push(format!("full-state exchange round {} done", round + 1));
        }
        sys.verdict("Q2 (after full-state exchange)").await?;
        Ok(())
    })
}

/// n1: SET a 1; SET b 2 (same shard); both delivered; n1: DEL a b -> only b's tombstone is
/// forwarded: n2 keeps serving a.
pub fn coord_reproducer() -> CoordCase {
    let k = keys();
    CoordCase {
        nodes: 2,
        steps: vec![
            CStep::Cmd { node: 0, argv: sv(&["SET", &k[0], "1"]) },
            CStep::Cmd { node: 0, argv: sv(&["SET", &k[1], "2"]) },
            CStep::Deliver { idx: 0 },
            CStep::Deliver { idx: 0 },
            CStep::Cmd { node: 0, argv: sv(&["DEL", &k[0], &k[1]]) },
        ],
        wal: 0,
    }
}
