//! `TraceWalStore` — harness-owned `WalStore` (DESIGN.md §2.4).
//!
//! * in-memory files, each with a `synced_len` (bytes covered by a successful fsync);
//! * a global counter of mutating I/O calls (`create`, `append`, `sync`) — "call index";
//! * a fault script `call index -> Fault`, interpreted by the kind of call it lands on;
//! * a log with one record per call from which the durable image after ANY call index is
//!   reconstructed: per file, the bytes up to the `synced_len` it had after that call
//!   (files are append-only, so the final bytes of a file contain every earlier state).
//!
//! No randomness, no clock. Reads (`open_read`, `list`, `exists`) are not counted.

use redis_sim::streaming::wal_store::{WalError, WalFileReader, WalFileWriter, WalStore};
use serde::{Deserialize, Serialize};
use std::collections::BTreeMap;
use std::sync::{Arc, Mutex};

#[derive(Clone, Copy, Debug, PartialEq, Eq, Serialize, Deserialize)]
pub enum Fault {
    /// append / create: fails, nothing written
    WriteFail,
    /// append: the first `k` bytes (capped to len-1) are written, then the call fails
    Partial(u16),
    /// append: the first `k` bytes are written, then the call fails with WalError::Io — what a
    /// real file store reports when write(2) fails after partial progress (the in-tree
    /// LocalWalWriter never produces PartialWrite): the error kind says nothing about how many
    /// bytes reached the file
    PartialIo(u16),
    /// append: the first `k` bytes are written, then the call fails with WalError::DiskFull
    /// (ENOSPC after the last free block was filled); not sticky
    PartialDiskFull(u16),
    /// sync: fails, `synced_len` unchanged
    FsyncFail,
    /// append / create: this call and the next `n - 1` append/create calls fail with
    /// DiskFull (n = 0 means: for the rest of the run)
    DiskFull(u16),
}

#[derive(Clone, Copy, Debug, PartialEq, Eq)]
pub enum Op {
    Create,
    Append,
    Sync,
}

#[derive(Clone, Debug)]
pub struct Rec {
    pub file: String,
    pub op: Op,
    pub ok: bool,
    /// bytes the caller asked to append / bytes actually appended (Append only)
    pub requested: usize,
    pub written: usize,
    /// offset in the file at which this append started
    pub offset: usize,
    /// the file's synced_len after this call
    pub synced_after: usize,
    /// the fault that fired on this call, if any
    pub fault: Option<Fault>,
}

#[derive(Default)]
struct FileSt {
    data: Vec<u8>,
    synced_len: usize,
}

#[derive(Default)]
struct Inner {
    files: BTreeMap<String, FileSt>,
    faults: BTreeMap<u64, Fault>,
    /// remaining DiskFull failures (u32::MAX = forever)
    full_left: u32,
    log: Vec<Rec>,
    /// names for which `create` replaced an existing file
    replaced: Vec<String>,
}

#[derive(Clone, Default)]
pub struct TraceWalStore {
    inner: Arc<Mutex<Inner>>,
}

impl TraceWalStore {
    pub fn new(faults: &[(u64, Fault)]) -> Self {
        let s = TraceWalStore::default();
        s.inner.lock().unwrap().faults = faults.iter().cloned().collect();
        s
    }

    /// Number of mutating I/O calls made so far.
    pub fn calls(&self) -> u64 {
        self.inner.lock().unwrap().log.len() as u64
    }

    pub fn replaced(&self) -> Vec<String> {
        self.inner.lock().unwrap().replaced.clone()
    }

    pub fn log(&self) -> Vec<Rec> {
        self.inner.lock().unwrap().log.clone()
    }

    /// Final bytes of every file (durable or not).
    pub fn final_files(&self) -> BTreeMap<String, Vec<u8>> {
        self.inner
            .lock()
            .unwrap()
            .files
            .iter()
            .map(|(k, v)| (k.clone(), v.data.clone()))
            .collect()
    }

    /// A plain fault-free store holding exactly `files`.
    pub fn from_files(files: BTreeMap<String, Vec<u8>>) -> Self {
        let s = TraceWalStore::default();
        {
            let mut g = s.inner.lock().unwrap();
            for (k, v) in files {
                let n = v.len();
                g.files.insert(k, FileSt { data: v, synced_len: n });
            }
        }
        s
    }
}

/// Durable images after call indices: `synced[c]` = per file its synced_len after the first
/// `c` calls (c = 0: nothing has happened). A file appears from its `create` on.
pub fn synced_lens_after(log: &[Rec]) -> Vec<BTreeMap<String, usize>> {
    let mut cur: BTreeMap<String, usize> = BTreeMap::new();
    let mut out = Vec::with_capacity(log.len() + 1);
    out.push(cur.clone());
    for r in log {
        match r.op {
            Op::Create => {
                if r.ok {
                    cur.insert(r.file.clone(), 0);
                }
            }
            Op::Append => {}
            Op::Sync => {
                if cur.contains_key(&r.file) {
                    cur.insert(r.file.clone(), r.synced_after);
                }
            }
        }
        out.push(cur.clone());
    }
    out
}

/// Live images after call indices: `live[c]` = per file the number of bytes written to it by
/// the first `c` calls, synced or not (what a restart WITHOUT power loss finds; a partial
/// append leaves its bytes).
pub fn live_lens_after(log: &[Rec]) -> Vec<BTreeMap<String, usize>> {
    let mut cur: BTreeMap<String, usize> = BTreeMap::new();
    let mut out = Vec::with_capacity(log.len() + 1);
    out.push(cur.clone());
    for r in log {
        match r.op {
            Op::Create => {
                if r.ok {
                    cur.insert(r.file.clone(), 0);
                }
            }
            Op::Append => {
                if cur.contains_key(&r.file) {
                    cur.insert(r.file.clone(), r.offset + r.written);
                }
            }
            Op::Sync => {}
        }
        out.push(cur.clone());
    }
    out
}

pub struct TraceWriter {
    name: String,
    inner: Arc<Mutex<Inner>>,
    size: u64,
}

impl Inner {
    /// the fault for the call being made now (its index = log.len())
    fn take_fault(&mut self) -> Option<Fault> {
        let idx = self.log.len() as u64;
        self.faults.get(&idx).copied()
    }
}

impl WalFileWriter for TraceWriter {
    fn append(&mut self, data: &[u8]) -> Result<u64, WalError> {
        let mut guard = self.inner.lock().unwrap();
        let g = &mut *guard;
        let fault = g.take_fault();
        let name = self.name.clone();
        let (offset, synced) = {
            let f = g.files.entry(name.clone()).or_default();
            (f.data.len(), f.synced_len)
        };
        let mut rec = Rec {
            file: name,
            op: Op::Append,
            ok: false,
            requested: data.len(),
            written: 0,
            offset,
            synced_after: synced,
            fault: None,
        };
        // disk-full state (sticky)
        let mut full_now = false;
        if let Some(Fault::DiskFull(n)) = fault {
            g.full_left = if n == 0 { u32::MAX } else { n as u32 };
            rec.fault = fault;
        }
        if g.full_left > 0 {
            if g.full_left != u32::MAX {
                g.full_left -= 1;
            }
            full_now = true;
            if rec.fault.is_none() {
                rec.fault = Some(Fault::DiskFull(0));
            }
        }
        if full_now {
            g.log.push(rec);
            return Err(WalError::DiskFull);
        }
        match fault {
            Some(Fault::WriteFail) => {
                rec.fault = fault;
                g.log.push(rec);
                Err(WalError::Io(std::io::Error::new(
                    std::io::ErrorKind::Other,
                    "injected write failure",
                )))
            }
            Some(Fault::Partial(k)) | Some(Fault::PartialIo(k)) | Some(Fault::PartialDiskFull(k)) => {
                let k = (k as usize).min(data.len().saturating_sub(1));
                let f = g.files.get_mut(&self.name).unwrap();
                f.data.extend_from_slice(&data[..k]);
                rec.written = k;
                rec.fault = fault;
                g.log.push(rec);
                Err(match fault {
                    Some(Fault::PartialIo(_)) => WalError::Io(std::io::Error::new(
                        std::io::ErrorKind::Other,
                        "injected write failure after partial progress",
                    )),
                    Some(Fault::PartialDiskFull(_)) => WalError::DiskFull,
                    _ => WalError::PartialWrite {
                        expected: data.len(),
                        actual: k,
                    },
                })
            }
            _ => {
                // FsyncFail does not apply to an append: the call proceeds normally
                let f = g.files.get_mut(&self.name).unwrap();
                f.data.extend_from_slice(data);
                self.size = f.data.len() as u64;
                rec.written = data.len();
                rec.ok = true;
                g.log.push(rec);
                Ok(self.size)
            }
        }
    }

    fn sync(&mut self) -> Result<(), WalError> {
        let mut guard = self.inner.lock().unwrap();
        let g = &mut *guard;
        let fault = g.take_fault();
        let name = self.name.clone();
        let f = g.files.entry(name.clone()).or_default();
        let mut rec = Rec {
            file: name,
            op: Op::Sync,
            ok: false,
            requested: 0,
            written: 0,
            offset: f.data.len(),
            synced_after: f.synced_len,
            fault: None,
        };
        if let Some(Fault::FsyncFail) = fault {
            rec.fault = fault;
            g.log.push(rec);
            return Err(WalError::FsyncFailed("injected fsync failure".to_string()));
        }
        f.synced_len = f.data.len();
        rec.synced_after = f.synced_len;
        rec.ok = true;
        g.log.push(rec);
        Ok(())
    }

    fn size(&self) -> u64 {
        self.size
    }
}

pub struct TraceReader {
    data: Vec<u8>,
}

impl WalFileReader for TraceReader {
    fn read_all(&mut self) -> Result<Vec<u8>, WalError> {
        Ok(self.data.clone())
    }
}

impl WalStore for TraceWalStore {
    type Writer = TraceWriter;
    type Reader = TraceReader;

    fn create(&self, name: &str) -> Result<TraceWriter, WalError> {
        let mut guard = self.inner.lock().unwrap();
        let g = &mut *guard;
        let fault = g.take_fault();
        let mut rec = Rec {
            file: name.to_string(),
            op: Op::Create,
            ok: false,
            requested: 0,
            written: 0,
            offset: 0,
            synced_after: 0,
            fault: None,
        };
        if let Some(Fault::DiskFull(n)) = fault {
            g.full_left = if n == 0 { u32::MAX } else { n as u32 };
            rec.fault = fault;
        }
        if g.full_left > 0 {
            if g.full_left != u32::MAX {
                g.full_left -= 1;
            }
            if rec.fault.is_none() {
                rec.fault = Some(Fault::DiskFull(0));
            }
            g.log.push(rec);
            return Err(WalError::DiskFull);
        }
        if let Some(Fault::WriteFail) = fault {
            rec.fault = fault;
            g.log.push(rec);
            return Err(WalError::Io(std::io::Error::new(
                std::io::ErrorKind::Other,
                "injected create failure",
            )));
        }
        // like File::create: an existing file is truncated
        // replacing an EMPTY file loses nothing; replacing one that holds bytes is recorded
        if let Some(old) = g.files.insert(name.to_string(), FileSt::default()) {
            if !old.data.is_empty() {
                g.replaced.push(name.to_string());
            }
        }
        rec.ok = true;
        g.log.push(rec);
        Ok(TraceWriter {
            name: name.to_string(),
            inner: Arc::clone(&self.inner),
            size: 0,
        })
    }

    fn open_read(&self, name: &str) -> Result<TraceReader, WalError> {
        let g = self.inner.lock().unwrap();
        match g.files.get(name) {
            Some(f) => Ok(TraceReader { data: f.data.clone() }),
            None => Err(WalError::NotFound(name.to_string())),
        }
    }

    fn list(&self) -> Result<Vec<String>, WalError> {
        Ok(self.inner.lock().unwrap().files.keys().cloned().collect())
    }

    fn delete(&self, name: &str) -> Result<(), WalError> {
        self.inner.lock().unwrap().files.remove(name);
        Ok(())
    }

    fn exists(&self, name: &str) -> Result<bool, WalError> {
        Ok(self.inner.lock().unwrap().files.contains_key(name))
    }
}
