//! C09 — Always-fsync WAL: a write reported durable survives a crash at any instant.
//!
//! One check, `workloads` (see DESIGN.md §3 C09 and /verif/notes/C09.md): a generated workload
//! (waves of concurrent `write_durable` calls, group-commit size, rotation threshold, entry
//! sizes, a fault script) is executed against `spawn_wal_actor(TraceWalStore, cfg)` on a fresh
//! current-thread runtime; then, for the SAME workload, the fault-free run and EVERY
//! single-fault placement of every applicable fault kind over all I/O calls of the fault-free
//! run are executed too (thorough: also a second fault close behind the first). For every
//! executed run and EVERY crash instant c (after each I/O call) the durable image is rebuilt
//! from the store's log and recovered through `WalRotator::recover_all_entries`.

mod trace_store;

use proptest::prelude::*;
use redis_sim::redis::SDS;
use redis_sim::replication::lattice::{LamportClock, ReplicaId};
use redis_sim::replication::state::{ReplicatedValue, ReplicationDelta};
use redis_sim::streaming::wal::WalRotator;
use redis_sim::streaming::wal_actor::spawn_wal_actor;
use redis_sim::streaming::wal_config::{FsyncPolicy, WalConfig};
use serde::{Deserialize, Serialize};
use serde_json::json;
use std::collections::{BTreeMap, BTreeSet};
use std::path::PathBuf;
use std::sync::Arc;
use std::time::Duration;
use trace_store::{live_lens_after, synced_lens_after, Fault, Op, Rec, TraceWalStore};
use vcore::runner::catch;
use vcore::{CaseCtx, Level, Session};

const KF_ROTATE: &str = "KF-C09-01";
const KF_ERRPATH: &str = "KF-C09-02";

// ---------------------------------------------------------------------------------------
// case
// ---------------------------------------------------------------------------------------

#[derive(Clone, Debug, Serialize, Deserialize)]
struct WriteSpec {
    value_len: u32,
    stamp: u64,
    /// > 0: a large write; the value length is chosen so that the SERIALIZED delta (the WAL
    /// payload) is exactly this many bytes (`value_len` is ignored)
    #[serde(default)]
    serialized_target: u32,
}

#[derive(Clone, Debug, Serialize, Deserialize)]
struct FaultSpec {
    /// position as a fraction of (number of I/O calls of the fault-free run + 2)
    at: u16,
    kind: Fault,
}

#[derive(Clone, Debug, Serialize, Deserialize)]
struct Workload {
    group_commit_max_entries: u8,
    max_file_size: u32,
    waves: Vec<Vec<WriteSpec>>,
    faults: Vec<FaultSpec>,
    /// the Shutdown message is queued right behind the writes of the last wave (the final
    /// batch is then flushed by the shutdown path) instead of after all acks arrived
    shutdown_behind_last_wave: bool,
    /// a client asks for a graceful shutdown WHILE writers are still arriving: the Shutdown
    /// message is queued at a generated position inside a generated wave (`None`: only at the
    /// end). Writers of that wave at or behind the position race with the shutdown (their
    /// message sits behind it in the actor's queue); writers of later waves find the actor
    /// gone, or still running if it took the Shutdown in the middle of a batch.
    #[serde(default)]
    early_shutdown: Option<EarlyShutdown>,
}

#[derive(Clone, Copy, Debug, Serialize, Deserialize, PartialEq, Eq, Hash)]
struct EarlyShutdown {
    /// wave, as a fraction of the number of waves
    wave: u16,
    /// number of writers of that wave queued AHEAD of the Shutdown message, as a fraction of
    /// (wave length + 1): 0 = ahead of the whole wave, wave length = right behind it
    pos: u16,
}

/// (wave index, writers of that wave ahead of the Shutdown message)
fn shutdown_point(w: &Workload) -> Option<(usize, usize)> {
    let e = w.early_shutdown?;
    if w.waves.is_empty() {
        return None;
    }
    let wi = ((e.wave as usize) * w.waves.len()) >> 16;
    let p = ((e.pos as usize) * (w.waves[wi].len() + 1)) >> 16;
    Some((wi, p))
}

fn early_shutdown(weight_some: u32) -> impl Strategy<Value = Option<EarlyShutdown>> {
    prop_oneof![
        (100 - weight_some) => Just(None),
        weight_some => (
            // any wave; the last and the first a little more often
            prop_oneof![2 => any::<u16>(), 1 => Just(0u16), 1 => Just(65_535u16)],
            // any position; ahead of the whole wave / right behind it a little more often
            prop_oneof![4 => any::<u16>(), 1 => Just(0u16), 1 => Just(65_535u16)],
        )
            .prop_map(|(wave, pos)| Some(EarlyShutdown { wave, pos })),
    ]
}

fn fault_kind() -> impl Strategy<Value = Fault> {
    prop_oneof![
        3 => Just(Fault::WriteFail),
        3 => (0u16..120).prop_map(Fault::Partial),
        2 => (1u16..120).prop_map(Fault::PartialIo),
        1 => (1u16..120).prop_map(Fault::PartialDiskFull),
        3 => Just(Fault::FsyncFail),
        1 => (0u16..4).prop_map(Fault::DiskFull),
    ]
}

fn small_write() -> impl Strategy<Value = WriteSpec> {
    (
        prop_oneof![3 => 0u32..24, 2 => 24u32..120, 1 => 120u32..400],
        prop_oneof![4 => 0u64..50, 1 => any::<u64>()],
    )
        .prop_map(|(value_len, stamp)| WriteSpec {
            value_len,
            stamp,
            serialized_target: 0,
        })
}

fn faults() -> impl Strategy<Value = Vec<FaultSpec>> {
    proptest::collection::vec((any::<u16>(), fault_kind()).prop_map(|(at, kind)| FaultSpec { at, kind }), 0..=3)
}

fn small_workload() -> impl Strategy<Value = Workload> {
    (
        1u8..=8,
        prop_oneof![
            // rotate after every entry
            2 => Just(17u32),
            // a few entries per file: batches straddle rotations
            5 => 80u32..400,
            3 => 400u32..1500,
            // never rotates
            1 => Just(1u32 << 24),
        ],
        proptest::collection::vec(proptest::collection::vec(small_write(), 1..=12), 1..=4),
        faults(),
        prop::bool::weighted(0.25),
        early_shutdown(20),
    )
        .prop_map(
            |(group_commit_max_entries, max_file_size, waves, faults, shutdown_behind_last_wave, early_shutdown)| Workload {
                group_commit_max_entries,
                max_file_size,
                waves,
                faults,
                shutdown_behind_last_wave,
                early_shutdown,
            },
        )
}

/// Serialized payload sizes aimed at powers of two and their neighbours.
fn big_size() -> impl Strategy<Value = u32> {
    prop_oneof![
        4 => prop_oneof![Just(65_535u32), Just(65_536u32), Just(65_537u32)],
        6 => (-64i32..=64).prop_map(|d| (1_048_576 + d) as u32),
        3 => prop_oneof![Just(1_048_576u32 - 16), Just(1_048_576u32), Just(1_048_577u32), Just(1_048_576u32 + 16)],
        1 => Just(2 * 1_048_576u32),
        1 => Just(4 * 1_048_576u32 + 1),
    ]
}

/// Mostly small writes plus 1..2 large ones, placed first / middle / last in a wave, with a
/// rotation threshold that never rotates / rotates right behind the large entry / is smaller
/// than any entry / holds a few small entries.
fn large_workload() -> impl Strategy<Value = Workload> {
    (
        1u8..=8,
        prop_oneof![3 => Just(0u8), 2 => Just(1u8), 1 => Just(2u8), 1 => Just(3u8)],
        proptest::collection::vec(proptest::collection::vec(small_write(), 0..=6), 1..=2),
        proptest::collection::vec(
            (big_size(), prop_oneof![4 => 0u64..50, 1 => any::<u64>()], any::<u16>(), prop_oneof![Just(0u16), Just(32_768u16), Just(65_535u16), any::<u16>()]),
            1..=2,
        ),
        faults(),
        prop::bool::weighted(0.25),
        early_shutdown(15),
    )
        .prop_map(|(group_commit_max_entries, mfs_mode, mut waves, bigs, faults, shutdown_behind_last_wave, early_shutdown)| {
            let first_big = bigs[0].0;
            for (size, stamp, wave, pos) in bigs {
                let wi = ((wave as usize) * waves.len()) >> 16;
                let at = ((pos as usize) * (waves[wi].len() + 1)) >> 16;
                waves[wi].insert(
                    at,
                    WriteSpec {
                        value_len: 0,
                        stamp,
                        serialized_target: size,
                    },
                );
            }
            waves.retain(|w| !w.is_empty());
            Workload {
                group_commit_max_entries,
                max_file_size: match mfs_mode {
                    0 => 1u32 << 30,
                    1 => first_big + 400,
                    2 => 17,
                    _ => 300,
                },
                waves,
                faults,
                shutdown_behind_last_wave,
                early_shutdown,
            }
        })
}

/// One wave with more concurrent writers than the actor's channel holds (256), and
/// group-commit sizes up to the production default and beyond.
fn wide_workload() -> impl Strategy<Value = Workload> {
    (
        prop_oneof![2 => 1u8..=8, 1 => Just(64u8), 1 => Just(255u8)],
        prop_oneof![1 => Just(17u32), 2 => 80u32..1500, 1 => Just(1u32 << 24)],
        257usize..=300,
        (0u32..12, 0u64..50),
        faults(),
        prop::bool::weighted(0.25),
        // the shutdown overtakes writers that are still blocked on the full channel
        early_shutdown(30),
    )
        .prop_map(|(group_commit_max_entries, max_file_size, n, (value_len, stamp), faults, shutdown_behind_last_wave, early_shutdown)| Workload {
            group_commit_max_entries,
            max_file_size,
            waves: vec![(0..n)
                .map(|i| WriteSpec {
                    value_len: value_len + (i % 3) as u32,
                    stamp: stamp + (i % 7) as u64,
                    serialized_target: 0,
                })
                .collect()],
            faults,
            shutdown_behind_last_wave,
            early_shutdown,
        })
}

fn workload() -> impl Strategy<Value = Workload> {
    prop_oneof![
        185 => small_workload(),
        12 => large_workload(),
        3 => wide_workload(),
    ]
}

fn is_large(w: &Workload) -> bool {
    w.waves.iter().flatten().any(|x| x.serialized_target > 0)
}

fn is_wide(w: &Workload) -> bool {
    w.waves.iter().any(|v| v.len() > 64)
}

// ---------------------------------------------------------------------------------------
// one run
// ---------------------------------------------------------------------------------------

struct WriteOutcome {
    /// Ok(()) / Err(text) as returned by write_durable
    result: Result<(), String>,
    /// number of I/O calls the store had seen when the harness observed the result
    seen_at: u64,
}

struct RunResult {
    log: Vec<Rec>,
    files: BTreeMap<String, Vec<u8>>,
    /// by global write index
    outcomes: Vec<WriteOutcome>,
}

/// (payload bytes as the WAL must hold them, stamp) per global write index
fn make_deltas(w: &Workload) -> Vec<(Arc<ReplicationDelta>, Vec<u8>, u64)> {
    let mut out = Vec::new();
    let mut idx = 0usize;
    for wave in &w.waves {
        for ws in wave {
            let rid = ReplicaId::new(1 + (idx as u64 % 3));
            let mk = |n: usize| {
                let value = vec![(idx as u8).wrapping_mul(37).wrapping_add(1); n];
                let rv = ReplicatedValue::with_value(
                    SDS::new(value),
                    LamportClock {
                        time: ws.stamp,
                        replica_id: rid,
                    },
                );
                let delta = ReplicationDelta::new(format!("w{}", idx), rv, rid);
                let bytes = bincode::serialize(&delta).expect("bincode of a delta");
                (delta, bytes)
            };
            let (delta, bytes) = if ws.serialized_target == 0 {
                mk(ws.value_len as usize)
            } else {
                // aim at the serialized size
                let target = ws.serialized_target as usize;
                let base = mk(0).1.len();
                let mut n = target.saturating_sub(base);
                let mut r = mk(n);
                for _ in 0..3 {
                    if r.1.len() == target {
                        break;
                    }
                    n = (n + target).saturating_sub(r.1.len());
                    r = mk(n);
                }
                r
            };
            out.push((Arc::new(delta), bytes, ws.stamp));
            idx += 1;
        }
    }
    out
}

fn run(w: &Workload, deltas: &[(Arc<ReplicationDelta>, Vec<u8>, u64)], faults: &[(u64, Fault)]) -> Result<RunResult, String> {
    let store = TraceWalStore::new(faults);
    let cfg = WalConfig {
        enabled: true,
        wal_dir: PathBuf::from("/nonexistent-c09"),
        fsync_policy: FsyncPolicy::Always,
        max_file_size: (w.max_file_size as usize).max(17),
        group_commit_max_entries: w.group_commit_max_entries.max(1) as usize,
        group_commit_max_wait: Duration::ZERO,
        truncation_check_interval: Duration::from_secs(3600),
    };
    let st = store.clone();
    let outcomes: Result<Vec<WriteOutcome>, String> = catch(move || {
        vcore::block_on(async move {
            let (handle, task) = spawn_wal_actor(st.clone(), cfg).map_err(|e| format!("spawn_wal_actor failed: {}", e))?;
            let mut outcomes: Vec<WriteOutcome> = Vec::new();
            let mut idx = 0usize;
            let mut shutdown_task = None;
            let early = shutdown_point(w);
            for (wi, wave) in w.waves.iter().enumerate() {
                let mut joins = Vec::new();
                for k in 0..=wave.len() {
                    // tasks run in spawn order on this runtime and a task's first poll
                    // enqueues its message: the Shutdown message sits behind exactly k writers
                    if early == Some((wi, k)) {
                        let h = handle.clone();
                        shutdown_task = Some(tokio::spawn(async move { h.shutdown().await }));
                    }
                    if k == wave.len() {
                        break;
                    }
                    let h = handle.clone();
                    let s2 = st.clone();
                    let (delta, _, stamp) = deltas[idx].clone();
                    idx += 1;
                    joins.push(tokio::spawn(async move {
                        let r = h.write_durable(delta, stamp).await;
                        (r.map_err(|e| e.to_string()), s2.calls())
                    }));
                }
                if w.shutdown_behind_last_wave && early.is_none() && wi + 1 == w.waves.len() {
                    let h = handle.clone();
                    shutdown_task = Some(tokio::spawn(async move { h.shutdown().await }));
                }
                for j in joins {
                    match j.await {
                        Ok((result, seen_at)) => outcomes.push(WriteOutcome { result, seen_at }),
                        Err(e) => return Err(format!("a write_durable call panicked: {}", e)),
                    }
                }
            }
            match shutdown_task {
                Some(t) => {
                    let _ = t.await;
                }
                None => handle.shutdown().await,
            }
            if early.is_some() {
                // the actor may have outlived the early request (Shutdown taken in the middle
                // of a batch): ask again, as the server's exit path would
                handle.shutdown().await;
            }
            drop(handle);
            if let Err(e) = task.await {
                return Err(format!(
                    "the WAL actor task ended abnormally: {} ({})",
                    e,
                    vcore::runner::take_last_panic().unwrap_or_default()
                ));
            }
            Ok(outcomes)
        })
    })
    .and_then(|r| r);
    Ok(RunResult {
        log: store.log(),
        files: store.final_files(),
        outcomes: outcomes?,
    })
}

// ---------------------------------------------------------------------------------------
// oracle
// ---------------------------------------------------------------------------------------

fn show_log(log: &[Rec]) -> String {
    let mut s = String::new();
    for (i, r) in log.iter().enumerate() {
        let f = r.file.trim_start_matches("wal-").trim_end_matches(".wal").trim_start_matches('0');
        let what = match r.op {
            Op::Create => format!("create f{}", f),
            Op::Append => {
                if r.offset == 0 && r.requested == 16 {
                    format!("append f{} header", f)
                } else {
                    format!("append f{} @{}+{}", f, r.offset, r.requested)
                }
            }
            Op::Sync => format!("fsync f{} (synced_len={})", f, r.synced_after),
        };
        let tail = match (&r.fault, r.ok) {
            (Some(fl), _) => format!(" !! {:?}{}", fl, if r.op == Op::Append && r.written > 0 { format!(" ({} bytes written)", r.written) } else { String::new() }),
            (None, false) => " failed".to_string(),
            _ => String::new(),
        };
        s.push_str(&format!("    #{} {}{}\n", i, what, tail));
    }
    s
}

struct Verdict {
    instants: u64,
    recoveries: u64,
    tolerated_rotate: u64,
    tolerated_errpath: u64,
    acked: usize,
    failed: usize,
}

/// Why is acknowledged write `wi`, appended by log record `a`, not durable? (reading the log)
enum Cause {
    /// its file was closed by a rotation (next file created) and never fsynced afterwards
    RotatedUnsynced,
    /// a later append to its file failed, the writer was dropped, the file never fsynced
    DroppedAfterAppendError,
    Other(String),
}

fn cause(log: &[Rec], a: usize, c: usize) -> Cause {
    let file = &log[a].file;
    let synced_later = log[a + 1..].iter().any(|r| r.op == Op::Sync && &r.file == file);
    for r in &log[a + 1..] {
        match r.op {
            Op::Sync if &r.file == file => {
                let si = a + 1 + log[a + 1..].iter().position(|x| std::ptr::eq(x, r)).unwrap_or(0);
                return Cause::Other(if r.ok && si < c {
                    format!(
                        "its bytes ARE in the durable image (appended completely, covered by the successful fsync call #{}), but recovery does not return it: writer and reader disagree about what a valid entry is ({} payload bytes)",
                        si,
                        log[a].requested.saturating_sub(16)
                    )
                } else if r.ok {
                    "acknowledged before the fsync that covers it".to_string()
                } else {
                    "the fsync that should cover it failed, yet the write was acknowledged".to_string()
                });
            }
            Op::Append if &r.file == file && !r.ok => {
                if synced_later {
                    return Cause::Other("append error on its file, later fsync exists".to_string());
                }
                return Cause::DroppedAfterAppendError;
            }
            Op::Create => {
                if synced_later {
                    return Cause::Other("its file was rotated away, a later fsync of it exists".to_string());
                }
                return Cause::RotatedUnsynced;
            }
            _ => {}
        }
    }
    Cause::Other("no fsync of its file was ever issued after it was appended".to_string())
}

/// write index -> index of the log record of the successful append that holds its bytes
fn locate_appends(deltas: &[(Arc<ReplicationDelta>, Vec<u8>, u64)], r: &RunResult) -> BTreeMap<usize, usize> {
    let by_data: BTreeMap<&[u8], usize> = deltas.iter().enumerate().map(|(i, d)| (&d.1[..], i)).collect();
    let mut appended_at: BTreeMap<usize, usize> = BTreeMap::new();
    for (li, rec) in r.log.iter().enumerate() {
        if rec.op == Op::Append && rec.ok && rec.requested > 16 {
            if let Some(bytes) = r.files.get(&rec.file) {
                if rec.offset + rec.requested <= bytes.len() {
                    let payload = &bytes[rec.offset + 16..rec.offset + rec.requested];
                    if let Some(&wi) = by_data.get(payload) {
                        appended_at.entry(wi).or_insert(li);
                    }
                }
            }
        }
    }
    appended_at
}

fn check_run(
    w: &Workload,
    deltas: &[(Arc<ReplicationDelta>, Vec<u8>, u64)],
    faults: &[(u64, Fault)],
    r: &RunResult,
    ctx: &mut CaseCtx<'_>,
) -> Result<Verdict, String> {
    let n = r.log.len();
    let by_data: BTreeMap<&[u8], usize> = deltas.iter().enumerate().map(|(i, d)| (&d.1[..], i)).collect();
    let synced = synced_lens_after(&r.log);
    // where was each write appended (log index of the successful append holding its bytes)
    let appended_at = locate_appends(deltas, r);
    let context = |extra: &str| -> String {
        format!(
            "{}\n  config: group_commit_max_entries={} max_file_size={} waves={:?} shutdown {}\n  faults: {:?}\n  I/O calls:\n{}",
            extra,
            w.group_commit_max_entries,
            w.max_file_size,
            w.waves.iter().map(|v| v.len()).collect::<Vec<_>>(),
            match shutdown_point(w) {
                Some((sw, p)) => format!(
                    "requested while writers arrive: the Shutdown message is queued behind the first {} of the {} writers of wave {} (writes w{}.. race with it or come after it)",
                    p,
                    w.waves[sw].len(),
                    sw,
                    w.waves[..sw].iter().map(|x| x.len()).sum::<usize>() + p
                ),
                None if w.shutdown_behind_last_wave => "queued right behind the last wave".to_string(),
                None => "after all acks".to_string(),
            },
            faults,
            show_log(&r.log)
        )
    };
    let mut v = Verdict {
        instants: (n + 1) as u64,
        recoveries: 0,
        tolerated_rotate: 0,
        tolerated_errpath: 0,
        acked: r.outcomes.iter().filter(|o| o.result.is_ok()).count(),
        failed: r.outcomes.iter().filter(|o| o.result.is_err()).count(),
    };
    // acks sorted by the instant from which they are demanded
    let mut acks: Vec<(u64, usize)> = r
        .outcomes
        .iter()
        .enumerate()
        .filter(|(_, o)| o.result.is_ok())
        .map(|(i, o)| (o.seen_at, i))
        .collect();
    acks.sort();
    let mut tolerated: BTreeSet<usize> = BTreeSet::new();
    let mut prev_key: Option<(BTreeMap<String, usize>, usize)> = None;
    for c in 0..=n {
        let n_acked = acks.iter().take_while(|(at, _)| *at <= c as u64).count();
        let key = (synced[c].clone(), n_acked);
        if prev_key.as_ref() == Some(&key) {
            // same durable image and same set of acknowledged writes as at c-1: same verdict
            continue;
        }
        prev_key = Some(key);
        // durable image at crash instant c
        let mut image: BTreeMap<String, Vec<u8>> = BTreeMap::new();
        for (name, &len) in &synced[c] {
            let bytes = r.files.get(name).map(|b| &b[..len.min(b.len())]).unwrap_or(&[]);
            image.insert(name.clone(), bytes.to_vec());
        }
        let img_store = TraceWalStore::from_files(image);
        v.recoveries += 1;
        let recovered = catch(|| WalRotator::new(img_store, 1 << 20).and_then(|rot| rot.recover_all_entries()))
            .map_err(|p| context(&format!("recovery of the image after call #{} panicked: {}", c, p)))?
            .map_err(|e| context(&format!("recovery of the image after call #{} failed: {}", c, e)))?;
        let mut present: BTreeSet<usize> = BTreeSet::new();
        for e in &recovered {
            match by_data.get(&e.data[..]) {
                Some(&wi) if deltas[wi].2 == e.timestamp => {
                    if !present.insert(wi) {
                        return Err(context(&format!(
                            "crash after call #{}: write w{} is recovered twice",
                            c, wi
                        )));
                    }
                }
                Some(&wi) => {
                    return Err(context(&format!(
                        "crash after call #{}: write w{} is recovered with stamp {} but was written with stamp {}",
                        c, wi, e.timestamp, deltas[wi].2
                    )));
                }
                None => {
                    return Err(context(&format!(
                        "crash after call #{}: recovery returns an entry that was never written (len={} stamp={})",
                        c,
                        e.data.len(),
                        e.timestamp
                    )));
                }
            }
        }
        for &(at, wi) in &acks[..n_acked] {
            if present.contains(&wi) || tolerated.contains(&wi) {
                continue;
            }
            let why = match appended_at.get(&wi) {
                None => Cause::Other("its bytes were never completely appended to any file".to_string()),
                Some(&a) => cause(&r.log, a, c),
            };
            let (id, text) = match &why {
                Cause::RotatedUnsynced => (
                    Some(KF_ROTATE),
                    "its file was closed by a rotation (rotate() drops the old writer) and is never fsynced: WalRotator::sync covers only the current file".to_string(),
                ),
                Cause::DroppedAfterAppendError => (
                    Some(KF_ERRPATH),
                    "a later append to its file failed, WalRotator::append dropped the writer, and the batch's sync() was a no-op returning Ok".to_string(),
                ),
                Cause::Other(t) => (None, t.clone()),
            };
            let msg = format!(
                "write w{} (stamp {}, appended by call #{}) was reported durable (write_durable returned Ok, seen by the harness after {} calls) but is NOT recovered after a crash following call #{}: {}",
                wi,
                deltas[wi].2,
                appended_at.get(&wi).map(|a| a.to_string()).unwrap_or_else(|| "-".into()),
                at,
                c,
                text
            );
            match id {
                Some(id) if ctx.tolerate(id) => {
                    tolerated.insert(wi);
                    if id == KF_ROTATE {
                        v.tolerated_rotate += 1;
                    } else {
                        v.tolerated_errpath += 1;
                    }
                }
                _ => return Err(context(&msg)),
            }
        }
    }
    Ok(v)
}

fn kind_of(fl: &[(u64, Fault)]) -> Fault {
    fl[0].1
}

/// single-fault kinds applicable to the call recorded as `rec`
fn kinds_for(rec: &Rec) -> Vec<Fault> {
    match rec.op {
        Op::Append => {
            let n = rec.requested as u16;
            let mut v = vec![
                Fault::WriteFail,
                Fault::Partial(1),
                Fault::Partial(n / 2),
                Fault::Partial(n.saturating_sub(1)),
                Fault::PartialIo(1),
                Fault::PartialIo(n / 2),
                Fault::PartialDiskFull(n.saturating_sub(1)),
                Fault::DiskFull(1),
                Fault::DiskFull(0),
            ];
            v.dedup();
            v
        }
        Op::Sync => vec![Fault::FsyncFail],
        Op::Create => vec![Fault::WriteFail, Fault::DiskFull(0)],
    }
}

/// Group-commit batches as the case determines them (all writers of a wave are queued before
/// the actor runs, so a wave of n writes is committed in chunks of group_commit_max_entries),
/// mapped to the files the fault-free run put the entries in.
/// Returns (largest batch, some batch has entries in two files = it straddles a rotation).
fn batch_shape(w: &Workload, deltas: &[(Arc<ReplicationDelta>, Vec<u8>, u64)], r: &RunResult) -> (usize, bool) {
    let at = locate_appends(deltas, r);
    let m = w.group_commit_max_entries.max(1) as usize;
    let mut largest = 0;
    let mut straddle = false;
    let mut idx = 0usize;
    let early = shutdown_point(w);
    for (wi, wave) in w.waves.iter().enumerate() {
        // only the writers queued ahead of an early Shutdown are batched as stated (the
        // Shutdown flushes the batch it lands in); what follows it is not counted
        let len = match early {
            Some((sw, p)) if wi == sw => p,
            Some((sw, _)) if wi > sw => 0,
            _ => wave.len(),
        };
        let mut k = 0;
        while k < len {
            let size = m.min(len - k);
            largest = largest.max(size);
            let files: BTreeSet<&String> = (idx + k..idx + k + size)
                .filter_map(|wi| at.get(&wi).map(|&li| &r.log[li].file))
                .collect();
            if files.len() >= 2 {
                straddle = true;
            }
            k += size;
        }
        idx += wave.len();
    }
    (largest, straddle)
}

/// Restart on an image (the files a crash or a kill left behind), one more acknowledged write,
/// shutdown, recover: everything that was recoverable from the image must still be recovered,
/// the new write too, and the restarted rotator must not create a file that exists.
/// Returns false if the write after the restart was not acknowledged (not a durability claim).
fn restart_cycle(w: &Workload, r: &RunResult, lens: &BTreeMap<String, usize>, what: &dyn Fn() -> String) -> Result<bool, String> {
    let image: BTreeMap<String, Vec<u8>> = lens
        .iter()
        .map(|(n, &len)| (n.clone(), r.files.get(n).map(|b| b[..len.min(b.len())].to_vec()).unwrap_or_default()))
        .collect();
    let baseline = catch(|| WalRotator::new(TraceWalStore::from_files(image.clone()), 1 << 20).and_then(|x| x.recover_all_entries()))
        .map_err(|p| format!("{}: recovery of the image panicked: {}", what(), p))?
        .map_err(|e| format!("{}: recovery of the image failed: {}", what(), e))?;
    let store = TraceWalStore::from_files(image.clone());
    let cfg = WalConfig {
        enabled: true,
        wal_dir: PathBuf::from("/nonexistent-c09"),
        fsync_policy: FsyncPolicy::Always,
        max_file_size: (w.max_file_size as usize).max(17),
        group_commit_max_entries: 1,
        group_commit_max_wait: Duration::ZERO,
        truncation_check_interval: Duration::from_secs(3600),
    };
    let rid = ReplicaId::new(9);
    let rv = ReplicatedValue::with_value(SDS::new(b"after-restart".to_vec()), LamportClock { time: 1, replica_id: rid });
    let d = ReplicationDelta::new("after-restart".to_string(), rv, rid);
    let new_b = bincode::serialize(&d).expect("bincode of a delta");
    let d = Arc::new(d);
    let st = store.clone();
    let acked = catch(move || {
        vcore::block_on(async move {
            let (h, task) = spawn_wal_actor(st, cfg).map_err(|e| format!("spawn_wal_actor on the image: {}", e))?;
            let res = h.write_durable(d, 1).await;
            h.shutdown().await;
            drop(h);
            task.await.map_err(|e| format!("the WAL actor ended abnormally: {}", e))?;
            Ok::<bool, String>(res.is_ok())
        })
    })
    .map_err(|p| format!("{}: restart panicked: {}", what(), p))
    .and_then(|x| x)
    .map_err(|e| format!("{}: {}", what(), e))?;
    let files_now = store.final_files();
    let got = WalRotator::new(TraceWalStore::from_files(files_now.clone()), 1 << 20)
        .and_then(|x| x.recover_all_entries())
        .map_err(|e| format!("{}: recovery after the restart failed: {}", what(), e))?;
    let describe = || {
        format!(
            "image before the restart {:?}; files after it {:?}; names created over an existing file: {:?}",
            image.iter().map(|(n, b)| (n.clone(), b.len())).collect::<Vec<_>>(),
            files_now.iter().map(|(n, b)| (n.clone(), b.len())).collect::<Vec<_>>(),
            store.replaced()
        )
    };
    for e in &baseline {
        if !got.iter().any(|g| g.data == e.data && g.timestamp == e.timestamp) {
            return Err(format!(
                "{}: an entry (stamp {}, {} payload bytes) that the image held is no longer recovered after restart + one write; {}",
                what(),
                e.timestamp,
                e.data.len(),
                describe()
            ));
        }
    }
    if !store.replaced().is_empty() {
        return Err(format!("{}: the restarted rotator created a file that existed; {}", what(), describe()));
    }
    if acked && !got.iter().any(|g| g.data == new_b) {
        return Err(format!("{}: the write acknowledged after the restart is not recovered; {}", what(), describe()));
    }
    Ok(acked)
}

/// Life cycle behind the fault-free run: crash at its end -> restart on the durable image ->
/// truncate(T) through the actor -> barrier write -> shutdown -> second restart -> one more
/// write -> recover. Every write that was durable before and is stamped > T, the barrier and
/// the last write must be recovered; no existing file may be created again.
fn life_cycle(w: &Workload, free: &RunResult) -> Result<u64, String> {
    let synced = synced_lens_after(&free.log);
    let last = synced.last().cloned().unwrap_or_default();
    let image: BTreeMap<String, Vec<u8>> = last
        .iter()
        .map(|(n, &len)| (n.clone(), free.files.get(n).map(|b| b[..len.min(b.len())].to_vec()).unwrap_or_default()))
        .collect();
    let baseline = WalRotator::new(TraceWalStore::from_files(image.clone()), 1 << 20)
        .and_then(|r| r.recover_all_entries())
        .map_err(|e| format!("life cycle: recovery of the final durable image failed: {}", e))?;
    let mut stamps: Vec<u64> = baseline.iter().map(|e| e.timestamp).collect();
    stamps.sort();
    stamps.dedup();
    let mut ts: BTreeSet<u64> = [0u64].into_iter().collect();
    if !stamps.is_empty() {
        ts.insert(stamps[stamps.len() / 2]);
        ts.insert(stamps[stamps.len() / 2].saturating_sub(1));
        ts.insert(stamps[0]);
    }
    let mk = |key: &str, stamp: u64| {
        let rid = ReplicaId::new(9);
        let rv = ReplicatedValue::with_value(SDS::new(key.as_bytes().to_vec()), LamportClock { time: stamp, replica_id: rid });
        let d = ReplicationDelta::new(key.to_string(), rv, rid);
        let b = bincode::serialize(&d).expect("bincode of a delta");
        (Arc::new(d), b)
    };
    let mut evals = 0;
    for &t in &ts {
        evals += 1;
        let store = TraceWalStore::from_files(image.clone());
        let cfg = WalConfig {
            enabled: true,
            wal_dir: PathBuf::from("/nonexistent-c09"),
            fsync_policy: FsyncPolicy::Always,
            max_file_size: (w.max_file_size as usize).max(17),
            group_commit_max_entries: 1,
            group_commit_max_wait: Duration::ZERO,
            truncation_check_interval: Duration::from_secs(3600),
        };
        let (barrier, barrier_b) = mk("barrier", 0);
        let (after, after_b) = mk("after-restart", 1);
        let st = store.clone();
        catch(move || {
            vcore::block_on(async move {
                let (h, task) = spawn_wal_actor(st.clone(), cfg.clone()).map_err(|e| format!("spawn_wal_actor on the recovered image: {}", e))?;
                h.truncate(t);
                h.write_durable(barrier, 0).await.map_err(|e| format!("barrier write failed: {}", e))?;
                h.shutdown().await;
                drop(h);
                task.await.map_err(|e| format!("the WAL actor ended abnormally: {}", e))?;
                let (h, task) = spawn_wal_actor(st.clone(), cfg).map_err(|e| format!("spawn_wal_actor (second restart): {}", e))?;
                h.write_durable(after, 1).await.map_err(|e| format!("write after the second restart failed: {}", e))?;
                h.shutdown().await;
                drop(h);
                task.await.map_err(|e| format!("the WAL actor ended abnormally: {}", e))?;
                Ok::<(), String>(())
            })
        })
        .map_err(|p| format!("life cycle (truncate({})) panicked: {}", t, p))
        .and_then(|r| r)?;
        let what = format!(
            "life cycle after the fault-free run (max_file_size={}): restart on the durable image {:?}, truncate({}) through the actor, barrier write, restart, one more write",
            w.max_file_size,
            image.iter().map(|(n, b)| (n.clone(), b.len())).collect::<Vec<_>>(),
            t
        );
        let got = WalRotator::new(TraceWalStore::from_files(store.final_files()), 1 << 20)
            .and_then(|r| r.recover_all_entries())
            .map_err(|e| format!("{}: recovery failed: {}", what, e))?;
        for e in baseline.iter().filter(|e| e.timestamp > t) {
            if !got.iter().any(|g| g.data == e.data && g.timestamp == e.timestamp) {
                return Err(format!(
                    "{}: a write that was durable before (stamp {} > {}) is no longer recovered; files now: {:?}; names created over an existing file: {:?}",
                    what,
                    e.timestamp,
                    t,
                    store.final_files().keys().collect::<Vec<_>>(),
                    store.replaced()
                ));
            }
        }
        for (name, b) in [("the barrier write", &barrier_b), ("the write after the second restart", &after_b)] {
            if !got.iter().any(|g| &g.data == b) {
                return Err(format!("{}: {} was acknowledged but is not recovered", what, name));
            }
        }
        if !store.replaced().is_empty() {
            return Err(format!("{}: the actor created {:?} although that file existed", what, store.replaced()));
        }
    }
    Ok(evals)
}

fn check_workload(w: &Workload, ctx: &mut CaseCtx<'_>) -> Result<(), String> {
    let thorough = ctx.tier() == vcore::Tier::Thorough;
    let deltas = make_deltas(w);
    let mut evals = 0u64;
    let mut recoveries = 0u64;
    let mut runs = 0u64;

    // ---- fault-free run
    let free = run(w, &deltas, &[])?;
    let v = check_run(w, &deltas, &[], &free, ctx)?;
    evals += v.instants;
    recoveries += v.recoveries;
    runs += 1;
    let n0 = free.log.len();
    let (largest, straddle) = batch_shape(w, &deltas, &free);
    let n_files = free.files.len();
    ctx.label(&format!("batch_max={}", largest.min(8)));
    ctx.label(if straddle { "batch_straddles_rotation" } else { "no_straddle" });
    ctx.label(&format!("files={}", if n_files >= 6 { "6+".into() } else { n_files.to_string() }));
    if w.max_file_size <= 17 {
        ctx.label("rotate_after_every_entry");
    }
    let early = shutdown_point(w);
    if v.failed > 0 && early.is_none() {
        // not a durability claim (and the 5 s ack timeout could cause it on a stalled machine)
        ctx.label("fault_free_run_reports_a_failed_write");
    }
    // ---- where the Shutdown request was queued, and what became of the writers that raced
    //      with it / came after it in the fault-free run (measured, not assumed)
    match early {
        None => ctx.label(if w.shutdown_behind_last_wave { "shutdown=queued_behind_last_wave" } else { "shutdown=after_all_acks" }),
        Some((sw, p)) => {
            let len = w.waves[sw].len();
            let last = sw + 1 == w.waves.len();
            ctx.label(match (p, last) {
                (0, _) => "shutdown=early:ahead_of_a_whole_wave",
                (p, true) if p == len => "shutdown=early:behind_last_wave",
                (p, false) if p == len => "shutdown=early:behind_a_wave,more_waves_follow",
                _ => "shutdown=early:inside_a_wave",
            });
            let at = locate_appends(&deltas, &free);
            let first_of_wave: usize = w.waves[..sw].iter().map(|x| x.len()).sum();
            let racing = first_of_wave + p..first_of_wave + len;
            let later = first_of_wave + len..deltas.len();
            let class = |range: std::ops::Range<usize>| -> (usize, usize, usize) {
                let mut ok = 0;
                let mut err_absent = 0;
                let mut err_appended = 0;
                for i in range {
                    match (free.outcomes[i].result.is_ok(), at.contains_key(&i)) {
                        (true, _) => ok += 1,
                        (false, false) => err_absent += 1,
                        (false, true) => err_appended += 1,
                    }
                }
                (ok, err_absent, err_appended)
            };
            let (ok, gone, odd) = class(racing.clone());
            if racing.is_empty() {
                ctx.label("racing_writers=0");
            } else {
                ctx.label(&format!("racing_writers={}", match racing.len() { 1 => "1", 2..=4 => "2-4", _ => "5+" }));
                if gone > 0 {
                    ctx.label("racing_writer:message_dropped_unanswered->Err(actor exited on the Shutdown)");
                }
                if ok > 0 {
                    ctx.label("racing_writer:committed->Ok(actor took the Shutdown inside a batch and went on)");
                }
                if ok > 0 && gone > 0 {
                    ctx.label("racing_writers:some_committed_some_dropped");
                }
                if odd > 0 {
                    ctx.label("racing_writer:appended_but_Err");
                }
            }
            let (ok, gone, _) = class(later.clone());
            if !later.is_empty() {
                if gone > 0 {
                    ctx.label("later_wave:actor_gone->Err(send fails)");
                }
                if ok > 0 {
                    ctx.label("later_wave:committed_by_surviving_actor->Ok");
                }
            }
        }
    }
    if v.tolerated_rotate > 0 {
        ctx.label("fault_free_run_loses_acked_write(KF-C09-01)");
    }

    // ---- life cycle behind the fault-free run (crash, restart, truncate, restart, write)
    let cycles = !is_large(w) && !is_wide(w);
    let mut unacked_restart_writes = 0u32;
    if cycles {
        evals += life_cycle(w, &free)?;
        // restart at EVERY instant of the fault-free run -- also inside a rotation, where the
        // newest file exists but is still empty / has an unsynced header -- on the durable
        // image (power loss) and on the live image (process killed)
        let durable = synced_lens_after(&free.log);
        let live = live_lens_after(&free.log);
        let mut done: BTreeSet<BTreeMap<String, usize>> = BTreeSet::new();
        for c in 0..=n0 {
            for (kind, lens) in [("durable", &durable[c]), ("live", &live[c])] {
                if !done.insert(lens.clone()) {
                    continue;
                }
                evals += 1;
                let ok = restart_cycle(w, &free, lens, &|| {
                    format!(
                        "fault-free run, stop after call #{} ({}), restart on the {} image, one more write (max_file_size={})",
                        c,
                        if c == 0 { "nothing yet".to_string() } else { format!("{:?} {}", free.log[c - 1].op, free.log[c - 1].file) },
                        kind,
                        w.max_file_size
                    )
                })?;
                if !ok {
                    unacked_restart_writes += 1;
                }
            }
        }
    }

    // ---- the generated fault script (0..3 faults)
    if !w.faults.is_empty() {
        let script: Vec<(u64, Fault)> = {
            let mut m: BTreeMap<u64, Fault> = BTreeMap::new();
            for f in &w.faults {
                m.insert(((f.at as u64) * (n0 as u64 + 2)) >> 16, f.kind);
            }
            m.into_iter().collect()
        };
        let r = run(w, &deltas, &script)?;
        let v = check_run(w, &deltas, &script, &r, ctx)?;
        evals += v.instants;
        recoveries += v.recoveries;
        runs += 1;
        ctx.label(&format!("script_faults={}", script.len()));
        if v.tolerated_errpath > 0 {
            ctx.label("script_hits_KF-C09-02");
        }
    }

    // ---- every single-fault placement over the calls of the fault-free run
    //      (workloads with large entries: every fsync fault only; > 256 writers: none;
    //      to keep the cost per workload bounded; they are labelled)
    let reduced = is_large(w) || is_wide(w);
    if is_large(w) {
        ctx.label("large_entry(fsync_faults_only)");
        let mx = deltas.iter().map(|d| d.1.len()).max().unwrap_or(0);
        ctx.label(if mx > (1 << 20) { "large_entry>1MiB" } else { "large_entry<=1MiB" });
    }
    if is_wide(w) {
        ctx.label("wide_wave>256_writers(fault_free+script_only)");
    }
    for i in 0..n0 {
        for kind in kinds_for(&free.log[i]) {
            if (reduced && kind != Fault::FsyncFail) || is_wide(w) {
                continue;
            }
            let fl = [(i as u64, kind)];
            let r = run(w, &deltas, &fl)?;
            if r.log.get(i).map(|x| x.fault.is_some()) != Some(true) {
                return Err(format!(
                    "harness: fault {:?} scripted for call #{} did not fire (the run is not a deterministic function of the case)\n{}",
                    kind,
                    i,
                    show_log(&r.log)
                ));
            }
            let v = check_run(w, &deltas, &fl, &r, ctx)?;
            evals += v.instants;
            recoveries += v.recoveries;
            runs += 1;
            // restart right behind the faulted call (e.g. a failed / partial header append as
            // the last I/O) and at the end of the run, on the durable and on the live image
            if cycles {
                let durable = synced_lens_after(&r.log);
                let live = live_lens_after(&r.log);
                let mut done: BTreeSet<BTreeMap<String, usize>> = BTreeSet::new();
                for c in [i + 1, r.log.len()] {
                    for (kind, lens) in [("durable", &durable[c]), ("live", &live[c])] {
                        if !done.insert(lens.clone()) {
                            continue;
                        }
                        evals += 1;
                        let ok = restart_cycle(w, &r, lens, &|| {
                            format!(
                                "fault {:?} on call #{} ({:?} {}), stop after call #{}, restart on the {} image, one more write (max_file_size={})",
                                kind_of(&fl),
                                i,
                                r.log[i].op,
                                r.log[i].file,
                                c,
                                kind,
                                w.max_file_size
                            )
                        })?;
                        if !ok {
                            unacked_restart_writes += 1;
                        }
                    }
                }
            }
            // thorough: a second fault shortly behind the first
            if thorough && n0 <= 40 {
                for j in i + 1..(i + 7).min(r.log.len()) {
                    let k2 = match r.log[j].op {
                        Op::Append => Fault::WriteFail,
                        Op::Sync => Fault::FsyncFail,
                        Op::Create => Fault::WriteFail,
                    };
                    let fl2 = [(i as u64, kind), (j as u64, k2)];
                    let r2 = run(w, &deltas, &fl2)?;
                    let v2 = check_run(w, &deltas, &fl2, &r2, ctx)?;
                    evals += v2.instants;
                    recoveries += v2.recoveries;
                    runs += 1;
                }
            }
        }
    }
    let _ = recoveries;
    if unacked_restart_writes > 0 {
        ctx.label("restart_write_not_acked");
    }
    ctx.label(&format!("runs_per_workload={}", match runs { 0..=9 => "<10", 10..=49 => "10-49", 50..=199 => "50-199", _ => "200+" }));
    if largest >= 2 {
        // every workload is executed under faults (the enumeration), so the rule reduces to
        // "has a batch of >= 2 entries"
        ctx.nontrivial(&(
            w.group_commit_max_entries,
            w.max_file_size,
            w.waves.iter().map(|v| v.iter().map(|x| (x.value_len, x.stamp)).collect::<Vec<_>>()).collect::<Vec<_>>(),
            w.shutdown_behind_last_wave,
            early,
        ));
    }
    ctx.add_evaluations(evals + runs);
    Ok(())
}

// ---------------------------------------------------------------------------------------

fn ws(value_len: u32, stamp: u64) -> WriteSpec {
    WriteSpec {
        value_len,
        stamp,
        serialized_target: 0,
    }
}

fn main() {
    let args = vcore::parse_args();
    let s = Session::new(
        "C09",
        Level::FaultEnumeration,
        "a workload = 1..4 waves of 1..12 concurrent write_durable calls (value 0..400 bytes) against spawn_wal_actor(TraceWalStore) with \
         FsyncPolicy::Always, group_commit_max_entries 1..8, group_commit_max_wait 0, max_file_size from 'rotate after every entry' to 'never', \
         optional shutdown queued behind the last wave or (20 %) at a generated position inside / ahead of / behind any wave so that writers race with it or find the actor gone, and a generated script of 0..3 faults; per workload ENUMERATED: the fault-free run and every \
         single fault (append fails / writes 1, half, all-but-one bytes then fails / disk full once / disk full for good / create fails / fsync fails) \
         at every I/O call of the fault-free run (thorough: plus a second fault within the next 6 calls); per run EVERY crash instant (after each I/O \
         call): durable image = bytes <= synced_len per file, recovered with WalRotator::recover_all_entries. non-trivial = the fault-free run has a \
         group-commit batch of >= 2 entries (every workload is also run under faults); distinct by (config, entry sizes and stamps per wave)",
        &args,
    );
    s.assume("crash model of the property: a crash keeps, per file, exactly the bytes covered by the last successful fsync of that file (TraceWalStore.synced_len); a created file exists (possibly empty)");
    s.assume("an acknowledgement is attributed to the number of I/O calls the store had seen when the harness task observed write_durable returning Ok (never earlier than the real ack), so the check can only under-demand");
    s.assume("current-thread tokio runtime: all writers of a wave enqueue before the actor runs; no verdict depends on a timer (group_commit_max_wait = 0 only yields; the 5 s ack timeout of write_durable would turn an Ok into an Err, which demands less)");

    // ---- probes: minimal reproducers, nothing tolerated
    s.probe(
        KF_ROTATE,
        json!({"group_commit_max_entries": 2, "max_file_size": 17, "waves": [[{"value_len": 3, "stamp": 1}, {"value_len": 3, "stamp": 2}]], "faults": []}),
        || {
            let w = Workload {
                group_commit_max_entries: 2,
                max_file_size: 17,
                waves: vec![vec![ws(3, 1), ws(3, 2)]],
                faults: vec![],
                shutdown_behind_last_wave: false,
                early_shutdown: None,
            };
            let deltas = make_deltas(&w);
            let r = match run(&w, &deltas, &[]) {
                Ok(r) => r,
                Err(e) => return Some(e),
            };
            s.strict_eval(|ctx| check_run(&w, &deltas, &[], &r, ctx).map(|_| ()))
                .err()
                .map(|e| e.lines().next().unwrap_or("").to_string())
        },
    );
    s.probe(
        KF_ERRPATH,
        json!({"group_commit_max_entries": 2, "max_file_size": 16777216, "waves": [[{"value_len": 3, "stamp": 1}, {"value_len": 3, "stamp": 2}]], "faults": [[3, "WriteFail"]]}),
        || {
            let w = Workload {
                group_commit_max_entries: 2,
                max_file_size: 1 << 24,
                waves: vec![vec![ws(3, 1), ws(3, 2)]],
                faults: vec![],
                shutdown_behind_last_wave: false,
                early_shutdown: None,
            };
            let deltas = make_deltas(&w);
            // calls: #0 create, #1 header, #2 append w0, #3 append w1 (fails)
            let fl = [(3u64, Fault::WriteFail)];
            let r = match run(&w, &deltas, &fl) {
                Ok(r) => r,
                Err(e) => return Some(e),
            };
            s.strict_eval(|ctx| check_run(&w, &deltas, &fl, &r, ctx).map(|_| ()))
                .err()
                .map(|e| e.lines().next().unwrap_or("").to_string())
        },
    );

    s.describe_check(
        "workloads",
        "per generated workload: fault-free run, generated fault script, every single-fault placement (thorough: + near second fault); per run every crash instant; acknowledged writes must be in the recovered durable image, nothing unwritten may be",
    );
    s.run_cases("workloads", s.scale(800, 12_000), workload, check_workload);

    s.finish();
}
