//! The same oracle through the production entry points above the bare executor.
//!
//! The property quantifies over commands, not over `CommandExecutor::execute`: a client's
//! command reaches the executor through glue that may split it, route it, or turn a fault of
//! a side channel into the reply. Two tiers:
//!
//! * `sharded_entry` — `ShardedActorState::execute` with a generated shard count (1..16) and
//!   generated key placement (shard count x a key salt), harness clock;
//! * `replicated_wal` — `ReplicatedShardedState::execute` (16 shards) with a generated WAL
//!   configuration (none / Always / EverySecond / No, group size, file size so that rotation
//!   happens), a WAL store whose create/append/fsync calls fail on generated call indices, from
//!   a generated call on, or exactly during the command under test; delta sink absent / live /
//!   receiver gone; gossip queue on / off.
//!
//! Oracle (both): the visible keyspace is read through the SAME entry point with ordinary read
//! commands — `KEYS *` (as a sorted multiset: a key present on two shards is listed twice),
//! `DBSIZE`, and per key TYPE / full value / PTTL — immediately before and after the one
//! command, with the harness clock held. If the reply is an error, or the command
//! `is_read_only()`, the two observations must be equal. Nothing else is asserted: replies are
//! not compared with a model, cross-shard semantics of successful two-key commands
//! (KF-C03-02) are not judged.

use crate::state::{b, pool_keys, state_steps, Step, NKEYS, T0};
use crate::{aimed, diff_dumps, final_command, label_reply, nontrivial_kind, Final};
use proptest::prelude::*;
use redis_sim::production::{ReplicatedShardedState, ShardConfig, ShardedActorState};
use redis_sim::redis::Command;
use redis_sim::replication::{ConsistencyLevel, ReplicationConfig};
use redis_sim::streaming::wal_config::{FsyncPolicy, WalConfig};
use redis_sim::streaming::{
    delta_sink_channel, spawn_wal_actor, DeltaSinkReceiver, InMemoryWalStore, WalError, WalFileWriter, WalStore,
};
use serde::{Deserialize, Serialize};
use std::hash::{Hash, Hasher};
use std::sync::atomic::{AtomicU64, AtomicU8, Ordering};
use std::sync::Arc;
use vcore::dump::{dump_async, show_dump, Dump};
use vcore::gen::{cmd_name, KEY_POOL};
use vcore::resp::{parse_zc, show_argv, Argv, Reply};
use vcore::runner::catch;
use vcore::time::VerifTime;
use vcore::CaseCtx;

// ---------------------------------------------------------------------------------------
// cases
// ---------------------------------------------------------------------------------------

#[derive(Clone, Debug, Serialize, Deserialize)]
pub struct ShardedCase {
    /// number of shards of the `ShardedActorState`
    pub shards: u8,
    /// key placement: 0 = pool keys as they are, n = every pool key gets the suffix `#n`
    pub salt: u8,
    pub steps: Vec<Step>,
    pub fin: Final,
}

#[derive(Clone, Debug, Serialize, Deserialize)]
pub struct WalPlan {
    /// 0 = no WAL installed, 1 = Always, 2 = EverySecond, 3 = No
    pub policy: u8,
    /// group_commit_max_entries
    pub group: u8,
    /// max_file_size (small values make the rotator create new files inside a case)
    pub file_size: u32,
    /// indices (in the sequence of create/append/fsync calls of the store) that fail
    pub fail_calls: Vec<u8>,
    /// every call from this index on fails (device full / gone)
    pub fail_from: Option<u8>,
    /// armed exactly around the command under test: bit 0 = create/append fail, bit 1 = fsync fails
    pub final_fault: u8,
    /// 0 = no delta sink, 1 = live sink, 2 = sink whose receiver is gone
    pub sink: u8,
    /// ReplicationConfig::enabled (deltas queued for gossip)
    pub gossip: bool,
}

#[derive(Clone, Debug, Serialize, Deserialize)]
pub struct ReplCase {
    pub wal: WalPlan,
    pub salt: u8,
    pub steps: Vec<Step>,
    pub fin: Final,
}

fn steps_and_final() -> impl Strategy<Value = (Vec<Step>, Final)> {
    prop_oneof![
        3 => (state_steps(6, 8), final_command()),
        // a last-moment setup aimed at one failure (the two-key failures among them), directly
        // or forwarded by a script
        2 => (state_steps(4, 6), aimed(), 0u8..8, any::<u16>()).prop_map(|(mut steps, (extra, cmd), wrap, k)| {
            steps.extend(extra);
            let fin = if wrap < 3 {
                Final::Script { shape: wrap, key: crate::state::pool_key(k), inner: cmd }
            } else {
                Final::Direct(cmd)
            };
            (steps, fin)
        }),
    ]
}

pub fn sharded_case() -> impl Strategy<Value = ShardedCase> {
    let shards = prop_oneof![
        1 => Just(1u8),
        4 => Just(2u8),
        3 => Just(3u8),
        3 => Just(4u8),
        2 => Just(5u8),
        2 => Just(7u8),
        3 => Just(8u8),
        2 => Just(16u8),
    ];
    (shards, 0u8..4, steps_and_final()).prop_map(|(shards, salt, (steps, fin))| ShardedCase { shards, salt, steps, fin })
}

fn wal_plan() -> impl Strategy<Value = WalPlan> {
    (
        prop_oneof![1 => Just(0u8), 6 => Just(1u8), 1 => Just(2u8), 1 => Just(3u8)],
        prop_oneof![Just(1u8), Just(2u8), Just(8u8)],
        prop_oneof![Just(64u32), Just(200u32), Just(1u32 << 20)],
        prop_oneof![
            3 => Just(Vec::new()),
            2 => proptest::collection::vec(0u8..40, 1..4),
        ],
        prop_oneof![4 => Just(None), 1 => (0u8..30).prop_map(Some)],
        prop_oneof![3 => Just(0u8), 1 => Just(1u8), 2 => Just(2u8), 1 => Just(3u8)],
        prop_oneof![2 => Just(0u8), 2 => Just(1u8), 1 => Just(2u8)],
        any::<bool>(),
    )
        .prop_map(|(policy, group, file_size, fail_calls, fail_from, final_fault, sink, gossip)| WalPlan {
            policy,
            group,
            file_size,
            fail_calls,
            fail_from,
            final_fault,
            sink,
            gossip,
        })
}

/// Final commands for the replicated tier: half of them from the general generator, half
/// plain single-key writes of the kinds the replicated layer forwards (those are the commands
/// for which the glue does extra work after the executor has run).
fn repl_steps_and_final() -> impl Strategy<Value = (Vec<Step>, Final)> {
    use crate::forms::form;
    use crate::forms::P::*;
    let forwarded = prop_oneof![
        form(vec![L("SET"), K, V]),
        form(vec![L("SET"), K, V, O(&["EX", "PX"]), O(&["10", "100000"])]),
        form(vec![O(&["INCR", "DECR"]), K]),
        form(vec![O(&["INCRBY", "DECRBY"]), K, O(&["1", "-3", "9223372036854775807"])]),
        form(vec![L("APPEND"), K, V]),
        form(vec![L("GETSET"), K, V]),
        form(vec![L("HSET"), K, M, V, M, V]),
        form(vec![L("HDEL"), K, M, M]),
        form(vec![L("HINCRBY"), K, M, O(&["1", "-1", "9223372036854775807"])]),
        form(vec![L("DEL"), K]),
        form(vec![L("DEL"), K, K, K]),
        form(vec![L("MSET"), K, V, K, V]),
    ];
    prop_oneof![
        1 => steps_and_final(),
        1 => (state_steps(6, 8), forwarded.prop_map(Final::Direct)),
    ]
}

pub fn repl_case() -> impl Strategy<Value = ReplCase> {
    (wal_plan(), 0u8..4, repl_steps_and_final()).prop_map(|(wal, salt, (steps, fin))| ReplCase { wal, salt, steps, fin })
}

// ---------------------------------------------------------------------------------------
// key placement
// ---------------------------------------------------------------------------------------

fn salted_key(k: &[u8], salt: u8) -> Vec<u8> {
    let mut v = k.to_vec();
    if salt != 0 {
        v.extend_from_slice(format!("#{}", salt).as_bytes());
    }
    v
}

/// Every argument (not the command name) that is a pool key gets the case's suffix.
fn salted(a: &Argv, salt: u8) -> Argv {
    if salt == 0 {
        return a.clone();
    }
    a.iter()
        .enumerate()
        .map(|(i, x)| {
            if i > 0 && KEY_POOL[..NKEYS].iter().any(|k| *k == x.as_slice()) {
                salted_key(x, salt)
            } else {
                x.clone()
            }
        })
        .collect()
}

/// Replica of `sharded_actor::hash_key` (std DefaultHasher over the key's bytes as `[u8]`,
/// modulo N). Used for labels and the non-trivial fingerprint only, never by the oracle.
fn shard_of_bytes(key: &[u8], n: usize) -> usize {
    let mut h = std::collections::hash_map::DefaultHasher::new();
    key.hash(&mut h);
    (h.finish() as usize) % n.max(1)
}

/// Replica of `replicated_state::hash_key` (`<str as Hash>`, 16 shards); labels only.
fn shard_of_str16(key: &str) -> usize {
    let mut h = std::collections::hash_map::DefaultHasher::new();
    key.hash(&mut h);
    (h.finish() as usize) % 16
}

// ---------------------------------------------------------------------------------------
// fault-injecting WAL store
// ---------------------------------------------------------------------------------------

struct FaultCtl {
    /// counts create / append / fsync calls
    calls: AtomicU64,
    fail_calls: Vec<u64>,
    fail_from: Option<u64>,
    /// bit 0: create/append fail, bit 1: fsync fails (set by the harness around one command)
    armed: AtomicU8,
    fired: AtomicU64,
}

impl FaultCtl {
    /// kind: 1 = create/append, 2 = fsync
    fn fails(&self, kind: u8) -> bool {
        let i = self.calls.fetch_add(1, Ordering::SeqCst);
        let f = self.fail_calls.contains(&i)
            || self.fail_from.map(|n| i >= n).unwrap_or(false)
            || (self.armed.load(Ordering::SeqCst) & kind) != 0;
        if f {
            self.fired.fetch_add(1, Ordering::SeqCst);
        }
        f
    }
}

#[derive(Clone)]
struct FaultStore {
    inner: InMemoryWalStore,
    ctl: Arc<FaultCtl>,
}

struct FaultWriter {
    inner: <InMemoryWalStore as WalStore>::Writer,
    ctl: Arc<FaultCtl>,
}

impl WalFileWriter for FaultWriter {
    fn append(&mut self, data: &[u8]) -> Result<u64, WalError> {
        if self.ctl.fails(1) {
            return Err(WalError::DiskFull);
        }
        self.inner.append(data)
    }
    fn sync(&mut self) -> Result<(), WalError> {
        if self.ctl.fails(2) {
            return Err(WalError::FsyncFailed("injected by the harness".into()));
        }
        self.inner.sync()
    }
    fn size(&self) -> u64 {
        self.inner.size()
    }
}

impl WalStore for FaultStore {
    type Writer = FaultWriter;
    type Reader = <InMemoryWalStore as WalStore>::Reader;
    fn create(&self, name: &str) -> Result<Self::Writer, WalError> {
        if self.ctl.fails(1) {
            return Err(WalError::Io(std::io::Error::new(std::io::ErrorKind::Other, "injected by the harness: create refused")));
        }
        Ok(FaultWriter { inner: self.inner.create(name)?, ctl: self.ctl.clone() })
    }
    fn open_read(&self, name: &str) -> Result<Self::Reader, WalError> {
        self.inner.open_read(name)
    }
    fn list(&self) -> Result<Vec<String>, WalError> {
        self.inner.list()
    }
    fn delete(&self, name: &str) -> Result<(), WalError> {
        self.inner.delete(name)
    }
    fn exists(&self, name: &str) -> Result<bool, WalError> {
        self.inner.exists(name)
    }
}

// ---------------------------------------------------------------------------------------
// the entry points
// ---------------------------------------------------------------------------------------

enum Entry {
    Sharded(ShardedActorState<VerifTime>),
    Repl {
        st: ReplicatedShardedState<VerifTime>,
        ctl: Option<Arc<FaultCtl>>,
        _rx: Option<DeltaSinkReceiver>,
    },
}

impl Entry {
    async fn exec(&self, cmd: &Command) -> Reply {
        match self {
            Entry::Sharded(s) => Reply::from_resp(&s.execute(cmd).await),
            Entry::Repl { st, .. } => Reply::from_resp(&st.execute(cmd.clone()).await),
        }
    }
    /// as the connection does: a parse error is answered with an error reply
    async fn exec_argv(&self, a: &Argv) -> Reply {
        match catch(|| parse_zc(a)) {
            Ok(Ok(c)) => self.exec(&c).await,
            Ok(Err(e)) => Reply::Error(e.into_bytes()),
            Err(_) => Reply::Error(b"harness: parser panic".to_vec()),
        }
    }
    async fn evict(&self) {
        match self {
            Entry::Sharded(s) => {
                let _ = s.evict_expired_all_shards().await;
            }
            Entry::Repl { st, .. } => {
                let _ = st.evict_expired_all_shards().await;
            }
        }
    }
    fn arm(&self, mask: u8) {
        if let Entry::Repl { ctl: Some(c), .. } = self {
            c.armed.store(mask, Ordering::SeqCst);
        }
    }
    fn fired(&self) -> u64 {
        match self {
            Entry::Repl { ctl: Some(c), .. } => c.fired.load(Ordering::SeqCst),
            _ => 0,
        }
    }
}

fn new_sharded(n: u8, time: &VerifTime) -> Entry {
    Entry::Sharded(ShardedActorState::with_config_and_time_source(ShardConfig::with_shards(n as usize), time.clone()))
}

fn new_repl(p: &WalPlan, time: &VerifTime) -> Result<Entry, String> {
    let cfg = ReplicationConfig {
        enabled: p.gossip,
        replica_id: 1,
        consistency_level: ConsistencyLevel::Eventual,
        ..ReplicationConfig::default()
    };
    let mut st = ReplicatedShardedState::with_time_source(cfg, time.clone());
    let mut rx = None;
    match p.sink {
        1 => {
            let (tx, r) = delta_sink_channel();
            st.set_delta_sink(tx);
            rx = Some(r);
        }
        2 => {
            let (tx, r) = delta_sink_channel();
            st.set_delta_sink(tx);
            drop(r);
        }
        _ => {}
    }
    let policy = match p.policy {
        1 => Some(FsyncPolicy::Always),
        2 => Some(FsyncPolicy::EverySecond),
        3 => Some(FsyncPolicy::No),
        _ => None,
    };
    let mut ctl = None;
    if let Some(fsync_policy) = policy {
        let c = Arc::new(FaultCtl {
            calls: AtomicU64::new(0),
            fail_calls: p.fail_calls.iter().map(|x| *x as u64).collect(),
            fail_from: p.fail_from.map(|x| x as u64),
            armed: AtomicU8::new(0),
            fired: AtomicU64::new(0),
        });
        let store = FaultStore { inner: InMemoryWalStore::new(), ctl: c.clone() };
        // as server_persistent does: spawn the WAL actor over a store, hand its handle to the
        // replicated state. The group-commit wait is zero: no verdict depends on real time.
        let wc = WalConfig {
            enabled: true,
            wal_dir: std::path::PathBuf::from("/nonexistent/verif-wal"),
            fsync_policy,
            max_file_size: p.file_size.max(32) as usize,
            group_commit_max_entries: p.group.max(1) as usize,
            group_commit_max_wait: std::time::Duration::ZERO,
            truncation_check_interval: std::time::Duration::from_secs(3600),
        };
        let (handle, _task) = spawn_wal_actor(store, wc).map_err(|e| format!("harness: WAL actor does not start: {}", e))?;
        st.set_wal_handle(handle);
        ctl = Some(c);
    }
    Ok(Entry::Repl { st, ctl, _rx: rx })
}

// ---------------------------------------------------------------------------------------
// observation + oracle
// ---------------------------------------------------------------------------------------

#[derive(PartialEq, Eq)]
struct View {
    dump: Dump,
    /// `KEYS *` as a sorted multiset
    keys: Vec<Vec<u8>>,
    dbsize: Reply,
}

async fn view(e: &Entry, extra: &[Vec<u8>]) -> View {
    let mut keys: Vec<Vec<u8>> = match e.exec_argv(&vec![b("KEYS"), b("*")]).await {
        Reply::Array(a) => a.into_iter().filter_map(|k| if let Reply::Bulk(x) = k { Some(x) } else { None }).collect(),
        _ => Vec::new(),
    };
    keys.sort();
    let dbsize = e.exec_argv(&vec![b("DBSIZE")]).await;
    let dump = dump_async(|a| async move { e.exec_argv(&a).await }, extra).await;
    View { dump, keys, dbsize }
}

fn show_keys(k: &[Vec<u8>]) -> String {
    k.iter().map(|x| format!("{:?}", vcore::show(x))).collect::<Vec<_>>().join(" ")
}

fn cmd_names_two_keys(cmd: &Command) -> bool {
    let mut k = cmd.get_keys();
    k.sort();
    k.dedup();
    k.len() >= 2
}

struct Verdict {
    /// a shard actor died (executor panic): not an error *reply* of the command; C01's subject
    shard_died: bool,
}

/// Build the state, observe, run the one command, observe. Returns Err on a violation.
#[allow(clippy::too_many_arguments)]
async fn run(
    e: &Entry,
    time: &VerifTime,
    pre: &str,
    steps: &[Step],
    fin: &Final,
    salt: u8,
    final_fault: u8,
    ctx: &mut CaseCtx<'_>,
    cmd: &Command,
    fp_extra: (u8, bool, u8),
) -> Result<Verdict, String> {
    let argv = salted(&fin.argv(), salt);
    let inner = salted(fin.inner(), salt);
    let name = cmd_name(&inner);

    for s in steps {
        match s {
            Step::Cmd(a) => {
                let _ = e.exec_argv(&salted(a, salt)).await;
            }
            Step::Advance { ms, lazy } => {
                time.advance(*ms as u64);
                if !*lazy {
                    e.evict().await;
                }
            }
        }
    }
    let fired_in_state = e.fired();
    if fired_in_state > 0 {
        ctx.label(&format!("{}wal_fault_during_state", pre));
    }

    let mut extra: Vec<Vec<u8>> = pool_keys().iter().map(|k| salted_key(k, salt)).collect();
    extra.extend(cmd.get_keys().into_iter().map(|k| k.into_bytes()));
    extra.extend(inner.iter().skip(1).filter(|a| a.len() <= 80).cloned());

    let before = view(e, &extra).await;

    e.arm(final_fault);
    let reply = e.exec(cmd).await;
    e.arm(0);
    let fired_in_final = e.fired() - fired_in_state;
    if fired_in_final > 0 {
        ctx.label(&format!("{}wal_fault_during_command", pre));
    }

    if matches!(cmd, Command::Multi) && !reply.is_error() {
        // leave the transaction again so that the read commands of the observation execute
        let _ = e.exec_argv(&vec![b("DISCARD")]).await;
    }
    let after = view(e, &extra).await;

    let ro = cmd.is_read_only();
    let failed = reply.is_error();
    let script = matches!(fin, Final::Script { .. });
    label_reply(ctx, pre, cmd, &reply, script);
    if fired_in_final > 0 {
        ctx.label(&format!("{}wal_refused_during_command:{}", pre, if failed { "error_reply" } else { "ok_reply" }));
    }
    if fp_extra.1 && cmd_names_two_keys(cmd) {
        ctx.label(&format!("{}multi_key_cross_shard:{}", pre, if failed { "error_reply" } else if ro { "read_only" } else { "ok_reply" }));
    }

    let died = |r: &Reply| {
        r.error_text()
            .map(|t| t.contains("shard unavailable") || t.contains("shard response failed"))
            .unwrap_or(false)
    };
    if died(&reply) || died(&after.dbsize) {
        ctx.label(&format!("{}shard_died", pre));
        ctx.abstain();
        return Ok(Verdict { shard_died: true });
    }
    if !ro && !failed {
        ctx.label(&format!("{}effectful_ok", pre));
        return Ok(Verdict { shard_died: false });
    }
    if failed && fin.effect_first() {
        ctx.label(&format!("{}script_effect_then_failure", pre));
        ctx.abstain();
        return Ok(Verdict { shard_died: false });
    }

    if let Some(t) = nontrivial_kind(cmd, &inner, &reply) {
        let types: Vec<String> = inner
            .iter()
            .skip(1)
            .take(3)
            .map(|k| before.dump.get(k).map(|d| d.ty.clone()).unwrap_or_else(|| "-".into()))
            .collect();
        ctx.nontrivial(&(pre.to_string(), name, script, t, types, fp_extra, fired_in_final > 0));
    }

    if before != after {
        let what = if failed {
            format!("replied with the error {}", reply.show())
        } else {
            format!("is classified read-only (reply {})", reply.show())
        };
        let mut detail = diff_dumps(&before.dump, &after.dump);
        if before.keys != after.keys {
            detail.push_str(&format!("    KEYS * before: {}\n    KEYS * after:  {}\n", show_keys(&before.keys), show_keys(&after.keys)));
        }
        if before.dbsize != after.dbsize {
            detail.push_str(&format!("    DBSIZE {} -> {}\n", before.dbsize.show(), after.dbsize.show()));
        }
        return Err(format!(
            "{} {}{} but the keyspace visible through the same entry point changed:\n{}  before:\n{}  after:\n{}",
            show_argv(&argv),
            what,
            if fired_in_final > 0 { " (while the WAL store refused a call)" } else { "" },
            detail,
            show_dump(&before.dump),
            show_dump(&after.dump)
        ));
    }
    Ok(Verdict { shard_died: false })
}

fn parse_final(fin: &Final, salt: u8, pre: &str, ctx: &mut CaseCtx<'_>) -> Option<Command> {
    match catch(|| parse_zc(&salted(&fin.argv(), salt))) {
        Ok(Ok(c)) => Some(c),
        Ok(Err(_)) => {
            ctx.label(&format!("{}parse_error", pre));
            None
        }
        Err(_) => {
            ctx.label(&format!("{}parse_panic", pre));
            None
        }
    }
}

/// keys named by the command, and by the call a script forwards (labels only)
fn named_keys(cmd: &Command, fin: &Final, salt: u8) -> Vec<String> {
    let mut keys = cmd.get_keys();
    if let Final::Script { inner, .. } = fin {
        if let Ok(Ok(c)) = catch(|| parse_zc(&salted(inner, salt))) {
            keys.extend(c.get_keys());
        }
    }
    keys
}

pub fn check_sharded(case: &ShardedCase, ctx: &mut CaseCtx<'_>) -> Result<(), String> {
    let pre = "sh:";
    let Some(cmd) = parse_final(&case.fin, case.salt, pre, ctx) else {
        return Ok(());
    };
    let n = (case.shards as usize).max(1);
    ctx.label(&format!("sh:shards={}", n));
    // where do the command's keys live? (labels / fingerprint only)
    let keys = named_keys(&cmd, &case.fin, case.salt);
    let mut homes: Vec<usize> = keys.iter().map(|k| shard_of_bytes(k.as_bytes(), n)).collect();
    homes.sort();
    homes.dedup();
    let distinct_keys = {
        let mut k = keys.clone();
        k.sort();
        k.dedup();
        k.len()
    };
    let cross = homes.len() > 1;
    if distinct_keys >= 2 {
        ctx.label(if cross { "sh:multi_key_cross_shard" } else { "sh:multi_key_same_shard" });
    }
    let r = vcore::block_on(async {
        let time = VerifTime::new(T0);
        let e = new_sharded(n as u8, &time);
        run(&e, &time, pre, &case.steps, &case.fin, case.salt, 0, ctx, &cmd, (n.min(255) as u8, cross, 0)).await
    })
    .map_err(|m| format!("[ShardedActorState, {} shards, key suffix {}] {}", n, case.salt, m))?;
    let _ = r.shard_died;
    Ok(())
}

pub fn check_repl(case: &ReplCase, ctx: &mut CaseCtx<'_>) -> Result<(), String> {
    let pre = "rp:";
    let Some(cmd) = parse_final(&case.fin, case.salt, pre, ctx) else {
        return Ok(());
    };
    let p = &case.wal;
    ctx.label(match p.policy {
        1 => "rp:wal=always",
        2 => "rp:wal=everysec",
        3 => "rp:wal=no",
        _ => "rp:wal=none",
    });
    let keys = named_keys(&cmd, &case.fin, case.salt);
    let mut homes: Vec<usize> = keys.iter().map(|k| shard_of_str16(k)).collect();
    homes.sort();
    homes.dedup();
    let cross = homes.len() > 1;
    vcore::block_on(async {
        let time = VerifTime::new(T0);
        let e = new_repl(p, &time)?;
        run(&e, &time, pre, &case.steps, &case.fin, case.salt, p.final_fault & 3, ctx, &cmd, (p.policy, cross, p.sink)).await
    })
    .map_err(|m| {
        format!(
            "[ReplicatedShardedState, WAL policy {}, group {}, file size {}, failing calls {:?}, failing from {:?}, fault armed around the command: {}, sink {}, gossip {}, key suffix {}] {}",
            match p.policy {
                1 => "Always",
                2 => "EverySecond",
                3 => "No",
                _ => "none",
            },
            p.group,
            p.file_size,
            p.fail_calls,
            p.fail_from,
            match p.final_fault & 3 {
                1 => "create/append",
                2 => "fsync",
                3 => "create/append+fsync",
                _ => "no",
            },
            p.sink,
            p.gossip,
            case.salt,
            m
        )
    })?;
    Ok(())
}
