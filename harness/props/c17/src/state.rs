//! Keyspace-state construction shared by C17 and C16 (c16 includes this file with #[path]).
//!
//! A state is an explicit list of steps (argv commands and clock moves) executed on a fresh
//! `CommandExecutor`. The generator first places typed values (all five types, boundary
//! contents, optional TTLs) on keys of the shared pool, then stirs with generated data
//! commands and clock moves. Clock moves are either eager (`set_time`, expired keys are
//! evicted) or lazy (`update_time_readonly`, expired keys linger in the map until touched).

use proptest::prelude::*;
use proptest::strategy::BoxedStrategy;
use redis_sim::redis::{Command, CommandExecutor, Value};
use redis_sim::simulator::VirtualTime;
use serde::{Deserialize, Serialize};
use std::collections::BTreeMap;
use vcore::dump::{dump_executor, exec_argv, Dump};
use vcore::gen::{GenOpts, KEY_POOL};
use vcore::resp::{Argv, Reply};

pub const NKEYS: usize = 10;
pub const T0: u64 = 1_000;

#[derive(Clone, Debug, Serialize, Deserialize)]
pub enum Step {
    Cmd(Argv),
    /// move the clock forward; lazy = expired keys stay in the map until a command touches them
    Advance { ms: u32, lazy: bool },
}

pub fn b(s: &str) -> Vec<u8> {
    s.as_bytes().to_vec()
}

pub fn av(parts: &[&str]) -> Argv {
    parts.iter().map(|s| s.as_bytes().to_vec()).collect()
}

pub fn pool_key(i: u16) -> Vec<u8> {
    KEY_POOL[(i as usize * NKEYS) >> 16].to_vec()
}

pub fn pool_keys() -> Vec<Vec<u8>> {
    KEY_POOL[..NKEYS].iter().map(|k| k.to_vec()).collect()
}

pub fn gen_opts() -> GenOpts {
    GenOpts {
        key_pool: NKEYS,
        // SPOP / RANDOMKEY choose by hash order, which differs between two executor
        // instances; states must be reproducible on a twin executor
        random: false,
        flush: false,
        ..Default::default()
    }
}

/// Steps that make `k` hold a value of the given kind (the key is deleted first).
pub fn set_kind(k: &[u8], kind: u8) -> Vec<Step> {
    let k = k.to_vec();
    let c: Argv = match kind {
        0 => vec![b("SET"), k.clone(), b("10")],
        1 => vec![b("SET"), k.clone(), b("9223372036854775807")],
        2 => vec![b("SET"), k.clone(), b("-9223372036854775808")],
        3 => vec![b("SET"), k.clone(), b("1.5e308")],
        4 => vec![b("SET"), k.clone(), b("hello")],
        5 => vec![b("RPUSH"), k.clone(), b("a"), b("b"), b("c")],
        6 => vec![b("RPUSH"), k.clone(), b("x")],
        7 => vec![b("SADD"), k.clone(), b("a"), b("b"), b("c")],
        8 => vec![
            b("HSET"),
            k.clone(),
            b("a"),
            b("1"),
            b("b"),
            b("x"),
            b("c"),
            b("9223372036854775807"),
            b(""),
            b("-9223372036854775808"),
        ],
        9 => vec![b("ZADD"), k.clone(), b("1"), b("a"), b("2"), b("b"), b("3"), b("c")],
        10 => vec![b("SADD"), k.clone(), b("a")],
        11 => vec![b("HSET"), k.clone(), b("a"), b("5")],
        12 => vec![b("ZADD"), k.clone(), b("0"), b("a")],
        _ => vec![b("SET"), k.clone(), b("")],
    };
    vec![Step::Cmd(vec![b("DEL"), k]), Step::Cmd(c)]
}

pub const KINDS: u8 = 14;

/// One typed value placed on a key (+ optional TTL).
fn seed_steps() -> BoxedStrategy<Vec<Step>> {
    (any::<u16>(), 0u8..KINDS, 0u8..10)
        .prop_map(|(ki, kind, ttl)| {
            let k = pool_key(ki);
            let mut out = set_kind(&k, kind);
            match ttl {
                6 => out.push(Step::Cmd(vec![b("PEXPIRE"), k, b("50")])),
                7 => out.push(Step::Cmd(vec![b("PEXPIRE"), k, b("1")])),
                8 => out.push(Step::Cmd(vec![b("EXPIRE"), k, b("100")])),
                _ => {}
            }
            out
        })
        .boxed()
}

fn clock_step() -> BoxedStrategy<Step> {
    (
        prop_oneof![Just(1u32), Just(49), Just(50), Just(51), Just(1000), Just(99_999), Just(100_000)],
        any::<bool>(),
    )
        .prop_map(|(ms, lazy)| Step::Advance { ms, lazy })
        .boxed()
}

/// A generated state: typed seeds, then a stirred suffix of data commands and clock moves.
pub fn state_steps(max_seeds: usize, max_stir: usize) -> BoxedStrategy<Vec<Step>> {
    let o = gen_opts();
    let stir = prop_oneof![
        8 => vcore::gen::data_command(&o).prop_map(Step::Cmd),
        1 => clock_step(),
    ];
    (
        proptest::collection::vec(seed_steps(), 0..max_seeds + 1),
        proptest::collection::vec(stir, 0..max_stir + 1),
        prop_oneof![3 => Just(None), 1 => clock_step().prop_map(Some)],
    )
        .prop_map(|(seeds, stir, last)| {
            let mut v: Vec<Step> = seeds.into_iter().flatten().collect();
            v.extend(stir);
            v.extend(last);
            v
        })
        .boxed()
}

pub struct World {
    pub ex: CommandExecutor,
    pub now: u64,
}

impl World {
    pub fn new() -> World {
        let mut ex = CommandExecutor::new();
        ex.set_time(VirtualTime::from_millis(T0));
        World { ex, now: T0 }
    }
    pub fn build(steps: &[Step]) -> World {
        let mut w = World::new();
        for s in steps {
            w.step(s);
        }
        w
    }
    pub fn step(&mut self, s: &Step) {
        match s {
            Step::Cmd(a) => {
                let _ = exec_argv(&mut self.ex, a);
            }
            Step::Advance { ms, lazy } => {
                self.now += *ms as u64;
                if *lazy {
                    self.ex.update_time_readonly(VirtualTime::from_millis(self.now));
                } else {
                    self.ex.set_time(VirtualTime::from_millis(self.now));
                }
            }
        }
    }
    pub fn exec(&mut self, a: &Argv) -> Reply {
        exec_argv(&mut self.ex, a)
    }
    pub fn dump(&mut self, extra: &[Vec<u8>]) -> Dump {
        dump_executor(&mut self.ex, extra)
    }
    /// The raw map (`get_data()`), restricted to keys that are not expired at the current
    /// instant (PTTL != -2): catches keys the read commands of the dump might hide.
    pub fn raw(&mut self) -> Vec<(String, Value)> {
        let keys: Vec<String> = self.ex.get_data().keys().cloned().collect();
        let mut out = Vec::new();
        for k in keys {
            let live = !matches!(
                Reply::from_resp(&self.ex.execute(&Command::Pttl(k.clone()))),
                Reply::Int(-2)
            );
            if live {
                if let Some(v) = self.ex.get_data().get(&k) {
                    out.push((k, v.clone()));
                }
            }
        }
        out.sort_by(|a, b| a.0.cmp(&b.0));
        out
    }
    /// Destructive probe for expiry state left behind on *absent* keys: APPEND creates the key
    /// without touching the expiry table, so a left-over deadline shows up in PTTL.
    /// Call last; the executor is not usable for comparisons afterwards.
    pub fn orphan_probe(&mut self, keys: &[Vec<u8>]) -> BTreeMap<Vec<u8>, i64> {
        let mut out = BTreeMap::new();
        let mut ks: Vec<Vec<u8>> = keys.to_vec();
        ks.sort();
        ks.dedup();
        for k in ks {
            if self.exec(&vec![b("TYPE"), k.clone()]) != Reply::Simple(b("none")) {
                continue;
            }
            let _ = self.exec(&vec![b("APPEND"), k.clone(), b("p")]);
            let p = match self.exec(&vec![b("PTTL"), k.clone()]) {
                Reply::Int(i) => i,
                _ => i64::MIN,
            };
            out.insert(k, p);
        }
        out
    }
}

pub fn show_raw(r: &[(String, Value)]) -> String {
    let mut s = String::new();
    for (k, v) in r {
        let mut d = format!("{:?}", v);
        if d.len() > 300 {
            d = d.chars().take(300).collect();
            d.push('…');
        }
        s.push_str(&format!("    {:?} = {}\n", k, d));
    }
    if s.is_empty() {
        s.push_str("    (empty)\n");
    }
    s
}
