//! `big_values` — resource-limit failures that strike between a command's effect and its reply.
//!
//! Size-dependent: with small values a reply always fits wherever it is copied to (Lua heap,
//! reply buffers), so the generated check never sees these. Here a handful of states hold ONE
//! large element (1 MiB … 130 MiB, aimed at powers of two) as string value / list element /
//! set member / hash value, and every data-returning write command and every large-reply read
//! command is executed directly and through one-call `redis.call` / `redis.pcall` scripts;
//! plus large ARGUMENTS (SET/APPEND/LPUSH… of 64 MiB+, APPEND past 512 MiB, SETRANGE/SETBIT at
//! the 512 MiB limit). Oracle as everywhere in C17: error reply or read-only classification
//! => nothing changed. Snapshots are (type, per-element length + sampled checksum, PTTL) taken
//! from `get_data()` without copying the big element. Cases run one at a time (a lock), so
//! peak memory is one case's (< ~1.2 GiB).

use redis_sim::redis::{Command, CommandExecutor, RespValue, Value, SDS};
use redis_sim::simulator::VirtualTime;
use serde::{Deserialize, Serialize};
use std::collections::BTreeMap;
use vcore::resp::{parse_zc, Argv};
use vcore::runner::catch;
use vcore::CaseCtx;

const MIB: u64 = 1 << 20;

#[derive(Clone, Debug, Serialize, Deserialize)]
pub struct BigCase {
    /// what key `big` holds: none | small | string | list_first | list_last | set | hash | zero511
    pub holds: String,
    /// size of the one large element in bytes (ignored for none/small/zero511)
    pub size: u64,
    /// `big` carries a TTL
    pub ttl: bool,
    /// key `other`: none | list | string
    pub other: String,
    /// the command; an element `$BIG:<bytes>` stands for a generated argument of that size
    pub cmd: Vec<String>,
    /// direct | call | pcall | argv (EVAL "return redis.call('SET', KEYS[1], ARGV[1])" style is
    /// expressed with via = call, all arguments travel through ARGV)
    pub via: String,
}

/// ASCII, position-dependent content (members / fields are held as String: ASCII keeps
/// lengths exact); a decimal position stamp every 64 KiB.
pub fn pattern(len: usize, salt: u8) -> Vec<u8> {
    let mut block = vec![0u8; 65536];
    for (i, b) in block.iter_mut().enumerate() {
        *b = 0x21 + ((i as u32).wrapping_mul(31).wrapping_add(salt as u32) % 90) as u8;
    }
    let mut v = Vec::with_capacity(len);
    while v.len() < len {
        let n = (len - v.len()).min(block.len());
        let at = v.len();
        v.extend_from_slice(&block[..n]);
        let stamp = format!("<{}>", at);
        if n >= stamp.len() {
            v[at..at + stamp.len()].copy_from_slice(stamp.as_bytes());
        }
    }
    v
}

/// length + FNV over the first and last 4 KiB and every 4093rd byte
fn fingerprint(b: &[u8]) -> (usize, u64) {
    let mut h: u64 = 0xcbf29ce484222325;
    let mut eat = |x: u8| {
        h ^= x as u64;
        h = h.wrapping_mul(0x100000001b3);
    };
    let n = b.len();
    for &x in &b[..n.min(4096)] {
        eat(x);
    }
    for &x in &b[n.saturating_sub(4096)..] {
        eat(x);
    }
    let mut i = 0;
    while i < n {
        eat(b[i]);
        i += 4093;
    }
    (n, h)
}

type Snap = BTreeMap<String, (String, Vec<(usize, u64)>, i64)>;

fn snapshot(ex: &mut CommandExecutor) -> Snap {
    let keys: Vec<String> = ex.get_data().keys().cloned().collect();
    let mut out = Snap::new();
    for k in keys {
        let pttl = match ex.execute(&Command::Pttl(k.clone())) {
            RespValue::Integer(i) => i,
            _ => i64::MIN,
        };
        if pttl == -2 {
            continue;
        }
        let Some(v) = ex.get_data().get(&k) else { continue };
        let (ty, els): (&str, Vec<(usize, u64)>) = match v {
            Value::String(s) => ("string", vec![fingerprint(s.as_bytes())]),
            Value::List(l) => (
                "list",
                (0..l.len() as isize).filter_map(|i| l.get(i)).map(|s| fingerprint(s.as_bytes())).collect(),
            ),
            Value::Set(s) => {
                let mut m: Vec<(usize, u64)> = s.members().iter().map(|x| fingerprint(x.as_bytes())).collect();
                m.sort();
                ("set", m)
            }
            Value::Hash(h) => {
                let mut m: Vec<(&String, &SDS)> = h.iter().collect();
                m.sort_by(|a, b| a.0.cmp(b.0));
                (
                    "hash",
                    m.into_iter().flat_map(|(f, v)| [fingerprint(f.as_bytes()), fingerprint(v.as_bytes())]).collect(),
                )
            }
            Value::SortedSet(z) => (
                "zset",
                z.iter().flat_map(|(m, sc)| [fingerprint(m.as_bytes()), (0, sc.to_bits())]).collect(),
            ),
            Value::Null => ("null", vec![]),
        };
        out.insert(k, (ty.to_string(), els, pttl));
    }
    out
}

fn show_snap(s: &Snap) -> String {
    let mut o = String::new();
    for (k, (ty, els, pttl)) in s {
        o.push_str(&format!("    {:?} [{}] pttl={} elements (len, checksum) = {:?}\n", k, ty, pttl, els));
    }
    if o.is_empty() {
        o.push_str("    (empty)\n");
    }
    o
}

fn sds(v: Vec<u8>) -> SDS {
    SDS::new(v)
}

fn run(ex: &mut CommandExecutor, c: Command) {
    let _ = ex.execute(&c);
}

fn build(c: &BigCase) -> CommandExecutor {
    let mut ex = CommandExecutor::new();
    ex.set_time(VirtualTime::from_millis(1_000));
    let big = || sds(pattern(c.size as usize, 7));
    let k = "big".to_string();
    match c.holds.as_str() {
        "none" => {}
        "small" => run(&mut ex, Command::set(k.clone(), sds(b"old".to_vec()))),
        "string" => run(&mut ex, Command::set(k.clone(), big())),
        "list_first" => run(&mut ex, Command::RPush(k.clone(), vec![big(), sds(b"tail".to_vec())])),
        "list_last" => run(&mut ex, Command::RPush(k.clone(), vec![sds(b"head".to_vec()), big()])),
        "set" => run(&mut ex, Command::SAdd(k.clone(), vec![big()])),
        "hash" => run(&mut ex, Command::HSet(k.clone(), vec![(sds(b"f".to_vec()), big()), (sds(b"g".to_vec()), sds(b"1".to_vec()))])),
        // 511 MiB of zeroes, allocated zeroed by the server itself (no page is touched)
        "zero511" => run(&mut ex, Command::SetRange(k.clone(), (511 * MIB - 1) as usize, sds(b"\0".to_vec()))),
        _ => {}
    }
    if c.ttl {
        run(&mut ex, Command::PExpire { key: k, milliseconds: 1_000_000, nx: false, xx: false, gt: false, lt: false });
    }
    match c.other.as_str() {
        "list" => run(&mut ex, Command::RPush("other".into(), vec![sds(b"x".to_vec())])),
        "string" => run(&mut ex, Command::set("other".into(), sds(b"s".to_vec()))),
        _ => {}
    }
    ex
}

fn argv_of(c: &BigCase) -> Argv {
    c.cmd
        .iter()
        .map(|a| match a.strip_prefix("$BIG:") {
            Some(n) => pattern(n.parse::<usize>().unwrap_or(0), 3),
            None => a.as_bytes().to_vec(),
        })
        .collect()
}

fn describe(r: &RespValue) -> String {
    match r {
        RespValue::SimpleString(s) => format!("+{}", s),
        RespValue::Error(e) => format!("-{}", e.chars().take(160).collect::<String>().replace('\n', "\\n")),
        RespValue::Integer(i) => format!(":{}", i),
        RespValue::BulkString(None) => "(nil)".into(),
        RespValue::BulkString(Some(b)) => format!("bulk of {} bytes", b.len()),
        RespValue::Array(None) => "(nil-array)".into(),
        RespValue::Array(Some(a)) => format!("[{}]", a.iter().map(describe).collect::<Vec<_>>().join(", ")),
    }
}

static ONE_AT_A_TIME: std::sync::Mutex<()> = std::sync::Mutex::new(());

pub fn check_big(c: &BigCase, ctx: &mut CaseCtx<'_>) -> Result<(), String> {
    let _guard = ONE_AT_A_TIME.lock().unwrap_or_else(|e| e.into_inner());
    let mut ex = build(c);
    let argv = argv_of(c);
    let (cmd, inner_ro) = match c.via.as_str() {
        "direct" => match catch(|| parse_zc(&argv)) {
            Ok(Ok(cmd)) => {
                let ro = cmd.is_read_only();
                (cmd, ro)
            }
            _ => {
                ctx.label("parse_error");
                return Ok(());
            }
        },
        via => {
            let f = if via == "pcall" { "pcall" } else { "call" };
            (
                Command::Eval {
                    script: format!("return redis.{}(table.unpack(ARGV))", f),
                    keys: vec![],
                    args: argv.into_iter().map(SDS::new).collect(),
                },
                false,
            )
        }
    };
    let before = snapshot(&mut ex);
    let reply = match catch(|| ex.execute(&cmd)) {
        Ok(r) => r,
        Err(_) => {
            ctx.label("executor_panic");
            ctx.abstain();
            return Ok(());
        }
    };
    drop(cmd);
    let after = snapshot(&mut ex);
    let failed = matches!(reply, RespValue::Error(_));
    let shown = describe(&reply);
    drop(reply);
    ctx.label(&format!("via:{}", c.via));
    ctx.label(if failed { "error_reply" } else if inner_ro { "read_only" } else { "effectful_ok" });
    if !failed && !inner_ro {
        return Ok(());
    }
    ctx.nontrivial(&(c.holds.clone(), c.size, c.cmd.clone(), c.via.clone()));
    if before != after {
        return Err(format!(
            "[{} holds {} of {} bytes{}] {} via {} {} but the keyspace changed:\n  before:\n{}  after:\n{}",
            "big",
            c.holds,
            c.size,
            if c.ttl { ", TTL" } else { "" },
            c.cmd.join(" "),
            c.via,
            if failed { format!("replied with the error {}", shown) } else { format!("is classified read-only (reply {})", shown) },
            show_snap(&before),
            show_snap(&after)
        ));
    }
    Ok(())
}

pub fn big_cases() -> Vec<BigCase> {
    let mut v: Vec<BigCase> = Vec::new();
    let mut add = |holds: &str, size: u64, ttl: bool, other: &str, cmd: &[&str], via: &str| {
        v.push(BigCase {
            holds: holds.into(),
            size,
            ttl,
            other: other.into(),
            cmd: cmd.iter().map(|s| s.to_string()).collect(),
            via: via.into(),
        });
    };
    // sizes aimed at powers of two (limits are usually set there) and between them
    let sweep = [MIB, 16 * MIB, 32 * MIB + 65536, 64 * MIB - 65536, 64 * MIB + 65536, 72 * MIB, 130 * MIB];
    let two = [16 * MIB, 72 * MIB];

    // ---- data-returning write commands through one-call scripts, full size sweep
    for &sz in &sweep {
        for via in ["call", "pcall"] {
            if via == "pcall" && sz < 64 * MIB - 65536 {
                continue;
            }
            add("string", sz, true, "none", &["SET", "big", "new", "GET"], via);
            add("list_first", sz, false, "none", &["LPOP", "big"], via);
            add("list_last", sz, true, "none", &["RPOPLPUSH", "big", "other"], via);
        }
    }
    // ---- the other data-returning writes, two sizes
    for &sz in &two {
        for via in ["call", "pcall"] {
            if via == "pcall" && sz < 64 * MIB {
                continue;
            }
            add("string", sz, false, "none", &["GETSET", "big", "new"], via);
            add("string", sz, true, "none", &["GETDEL", "big"], via);
            add("string", sz, true, "none", &["GETEX", "big", "PERSIST"], via);
            add("list_last", sz, false, "none", &["RPOP", "big"], via);
            add("list_first", sz, false, "list", &["LMOVE", "big", "other", "LEFT", "RIGHT"], via);
            add("set", sz, false, "none", &["SPOP", "big"], via);
            add("set", sz, true, "none", &["SPOP", "big", "1"], via);
        }
    }
    // ---- the same writes directly (one size), incl. wrong-typed destination
    let d = 72 * MIB;
    add("string", d, true, "none", &["SET", "big", "new", "GET"], "direct");
    add("string", d, false, "none", &["GETSET", "big", "new"], "direct");
    add("string", d, true, "none", &["GETDEL", "big"], "direct");
    add("string", d, true, "none", &["GETEX", "big", "PERSIST"], "direct");
    add("string", d, true, "none", &["GETEX", "big", "EX", "0"], "direct");
    add("list_first", d, false, "none", &["LPOP", "big"], "direct");
    add("list_last", d, false, "none", &["RPOP", "big"], "direct");
    add("list_last", d, true, "list", &["RPOPLPUSH", "big", "other"], "direct");
    add("list_last", d, true, "string", &["RPOPLPUSH", "big", "other"], "direct");
    add("list_first", d, false, "string", &["LMOVE", "big", "other", "LEFT", "LEFT"], "direct");
    add("list_last", d, false, "string", &["RPOPLPUSH", "big", "other"], "call");
    add("set", d, false, "none", &["SPOP", "big"], "direct");
    add("list_first", d, false, "none", &["SORT", "big", "STORE", "other"], "direct");
    // ---- large-reply read commands, directly and through a script
    for via in ["direct", "call"] {
        add("string", d, true, "none", &["GET", "big"], via);
        add("string", 130 * MIB, false, "none", &["GET", "big"], via);
        add("string", d, false, "none", &["GETRANGE", "big", "0", "-1"], via);
        add("string", d, false, "string", &["MGET", "big", "other"], via);
        add("list_first", d, true, "none", &["LRANGE", "big", "0", "-1"], via);
        add("list_last", d, false, "none", &["LINDEX", "big", "-1"], via);
        add("set", d, false, "none", &["SMEMBERS", "big"], via);
        add("hash", d, true, "none", &["HGET", "big", "f"], via);
        add("hash", d, false, "none", &["HGETALL", "big"], via);
        add("hash", d, false, "none", &["HVALS", "big"], via);
    }
    // ---- failures on a large value that must leave it alone
    add("string", d, true, "none", &["INCR", "big"], "direct");
    add("string", d, false, "none", &["INCRBYFLOAT", "big", "1"], "direct");
    add("hash", d, false, "none", &["HINCRBY", "big", "f", "1"], "direct");
    add("string", d, true, "none", &["INCR", "big"], "pcall");
    add("string", d, false, "none", &["LPUSH", "big", "x"], "direct");
    // ---- large ARGUMENTS
    let a72 = "$BIG:75497472";
    let a64 = "$BIG:67174400"; // 64 MiB + 64 KiB
    add("none", 0, false, "none", &["SET", "big", a72], "direct");
    add("small", 0, true, "none", &["SET", "big", a64, "GET"], "direct");
    add("small", 0, true, "none", &["SET", "big", a64, "NX"], "direct");
    add("small", 0, true, "none", &["SET", "big", a64, "EX", "0"], "direct");
    add("none", 0, false, "none", &["SET", "big", a72], "call");
    add("small", 0, true, "none", &["SET", "big", a64, "GET"], "pcall");
    add("small", 0, false, "none", &["APPEND", "big", a72], "direct");
    add("string", d, true, "none", &["APPEND", "big", a64], "direct");
    add("small", 0, true, "none", &["LPUSH", "big", a64], "direct");
    add("small", 0, true, "none", &["SADD", "big", a64], "direct");
    add("small", 0, true, "none", &["HSET", "big", "f", a64], "direct");
    add("small", 0, true, "none", &["ZADD", "big", "1", a64], "direct");
    add("small", 0, false, "none", &["RPUSH", "big", a64], "call");
    add("none", 0, false, "none", &["LPUSH", "big", a64, "x"], "direct");
    // ---- the 512 MiB limit: APPEND growing past it, SETRANGE / SETBIT around it
    add("zero511", 0, true, "none", &["APPEND", "big", "$BIG:2097152"], "direct");
    add("none", 0, false, "none", &["SETRANGE", "big", "536870911", "x"], "direct");
    add("none", 0, false, "none", &["SETRANGE", "big", "536870911", "xy"], "direct");
    add("string", d, true, "none", &["SETRANGE", "big", "536870911", "xy"], "direct");
    add("string", d, true, "none", &["SETRANGE", "big", "75497470", "abcdef"], "direct");
    add("none", 0, false, "none", &["SETBIT", "big", "4294967295", "1"], "direct");
    add("none", 0, false, "none", &["SETBIT", "big", "4294967296", "1"], "direct");
    add("string", d, true, "none", &["SETBIT", "big", "4294967295", "1"], "direct");
    add("string", d, true, "none", &["SETBIT", "big", "4294967296", "1"], "direct");
    add("string", d, false, "none", &["GETBIT", "big", "4294967295"], "direct");
    v
}
