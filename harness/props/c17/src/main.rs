//! C17 — A command that fails changes nothing; a read-only command changes nothing.
//!
//! One check, `fail_or_ro`: a generated keyspace state (typed seeds on a 10-key pool, all five
//! types, boundary contents, TTLs, eager and lazy clock moves, stirred by generated data
//! commands), then ONE command from the full `Command` set, biased towards failure. The visible
//! keyspace (keys, types, full values, PTTL at the held clock) is dumped through ordinary read
//! commands before and after; `get_data()` restricted to unexpired keys is compared as a
//! cross-check; a twin executor that ran the same state but not the command is compared too,
//! including a destructive probe for expiry entries left behind on absent keys.
//! If the reply is an Error, or `cmd.is_read_only()`, everything must be equal.
//!
//! Further sub-checks: `sharded_entry` and `replicated_wal` (`entry.rs`) state the same oracle
//! through `ShardedActorState::execute` (generated shard count / key placement) and
//! `ReplicatedShardedState::execute` (generated WAL configuration and WAL-store faults), observing
//! the keyspace through that same entry point; `big_values` (`big.rs`) is an enumerated sweep of
//! large elements.

mod big;
mod entry;
mod forms;
mod state;

use proptest::prelude::*;
use proptest::strategy::BoxedStrategy;
use redis_sim::redis::Command;
use serde::{Deserialize, Serialize};
use serde_json::json;
use state::{av, b, pool_key, pool_keys, set_kind, show_raw, state_steps, Step, World};
use vcore::dump::{show_dump, Dump};
use forms::{mutated, targeted};
use vcore::gen::{cmd_name, GenOpts};
use vcore::resp::{parse_zc, show_argv, Argv, Reply};
use vcore::runner::catch;
use vcore::{CaseCtx, Level, Session};

// ---------------------------------------------------------------------------------------
// the case
// ---------------------------------------------------------------------------------------

#[derive(Clone, Debug, Serialize, Deserialize)]
pub enum Final {
    Direct(Argv),
    /// `EVAL <SCRIPTS[shape]> 1 <key> <inner…>`: `inner` arrives as ARGV, `key` as KEYS[1]
    Script { shape: u8, key: Vec<u8>, inner: Argv },
}

#[derive(Clone, Debug, Serialize, Deserialize)]
struct Case {
    steps: Vec<Step>,
    fin: Final,
}

/// (script text, performs an effect before the generated call)
const SCRIPTS: &[(&str, bool)] = &[
    ("return redis.call(table.unpack(ARGV))", false),
    ("return redis.pcall(table.unpack(ARGV))", false),
    ("local n = redis.call('EXISTS', KEYS[1]); return redis.call(table.unpack(ARGV))", false),
    ("redis.call('TYPE', KEYS[1]); local r = redis.pcall(table.unpack(ARGV)); return r", false),
    // effect first, then the failing call: Redis has no rollback, NOT a violation (abstains)
    ("redis.call('SET', KEYS[1], 'scripted'); return redis.call(table.unpack(ARGV))", true),
    ("return {err='custom failure'}", false),
    ("return (", false),
    ("return redis.call('NOSUCHCOMMAND', KEYS[1])", false),
    ("error('boom')", false),
    ("return redis.call()", false),
    ("return redis.error_reply('x')", false),
];

impl Final {
    pub(crate) fn argv(&self) -> Argv {
        match self {
            Final::Direct(a) => a.clone(),
            Final::Script { shape, key, inner } => {
                let (text, _) = SCRIPTS[*shape as usize % SCRIPTS.len()];
                let mut a = vec![b("EVAL"), b(text), b("1"), key.clone()];
                a.extend(inner.iter().cloned());
                a
            }
        }
    }
    /// the command whose failure is looked at (the script's generated call, or the command)
    pub(crate) fn inner(&self) -> &Argv {
        match self {
            Final::Direct(a) => a,
            Final::Script { inner, .. } => inner,
        }
    }
    pub(crate) fn effect_first(&self) -> bool {
        match self {
            Final::Direct(_) => false,
            Final::Script { shape, .. } => SCRIPTS[*shape as usize % SCRIPTS.len()].1,
        }
    }
}

// ---------------------------------------------------------------------------------------
// generator of the final command
// ---------------------------------------------------------------------------------------

fn any_command() -> BoxedStrategy<Argv> {
    let o = GenOpts {
        key_pool: state::NKEYS,
        ..Default::default()
    };
    prop_oneof![
        10 => targeted(),
        6 => vcore::gen::data_command(&o),
        1 => mutated(&o),
    ]
    .boxed()
}

/// A last-moment setup aimed at one failure: (extra steps, command).
pub(crate) fn aimed() -> BoxedStrategy<(Vec<Step>, Argv)> {
    (any::<u16>(), any::<u16>(), 0u8..30, vcore::gen::value(), 0u8..4)
        .prop_map(|(i1, i2, sel, v, ttl)| {
            let k = pool_key(i1);
            let mut k2 = pool_key(i2);
            if k2 == k {
                k2 = b("k-other");
            }
            let ks = String::from_utf8_lossy(&k).into_owned();
            let k2s = String::from_utf8_lossy(&k2).into_owned();
            let (kind, kind2, cmd): (u8, Option<u8>, Vec<&str>) = match sel {
                0 => (1, None, vec!["INCR", &ks]),
                1 => (1, None, vec!["INCRBY", &ks, "1"]),
                2 => (1, None, vec!["DECRBY", &ks, "-1"]),
                3 => (2, None, vec!["DECR", &ks]),
                4 => (2, None, vec!["INCRBY", &ks, "-1"]),
                5 => (0, None, vec!["DECRBY", &ks, "-9223372036854775808"]),
                6 => (3, None, vec!["INCRBYFLOAT", &ks, "1.5e308"]),
                7 => (4, None, vec!["INCRBYFLOAT", &ks, "1"]),
                8 => (4, None, vec!["INCR", &ks]),
                9 => (8, None, vec!["HINCRBY", &ks, "c", "1"]),
                10 => (8, None, vec!["HINCRBY", &ks, "", "-1"]),
                11 => (8, None, vec!["HINCRBY", &ks, "b", "1"]),
                12 => (5, None, vec!["LSET", &ks, "3", "v"]),
                13 => (5, None, vec!["LSET", &ks, "-4", "v"]),
                14 => (5, Some(4), vec!["RPOPLPUSH", &ks, &k2s]),
                15 => (6, Some(7), vec!["RPOPLPUSH", &ks, &k2s]),
                16 => (5, Some(8), vec!["LMOVE", &ks, &k2s, "LEFT", "LEFT"]),
                17 => (6, Some(9), vec!["LMOVE", &ks, &k2s, "RIGHT", "LEFT"]),
                18 => (9, Some(4), vec!["SORT", &ks, "STORE", &k2s]),
                19 => (8, Some(5), vec!["SORT", &ks, "STORE", &k2s]),
                20 => (0, None, vec!["SETRANGE", &ks, "536870913", "x"]),
                21 => (0, None, vec!["SETBIT", &ks, "4294967296", "1"]),
                22 => (4, None, vec!["GETEX", &ks, "EX", "0"]),
                23 => (4, None, vec!["GETEX", &ks, "PX", "-5"]),
                24 => (0, None, vec!["EXPIRE", &ks, "9223372036854775807"]),
                25 => (0, None, vec!["PEXPIRE", &ks, "9223372036854775807"]),
                26 => (5, None, vec!["SET", &ks, "v", "GET"]),
                27 => (9, None, vec!["ZRANGEBYSCORE", &ks, "abc", "1"]),
                28 => (9, None, vec!["ZCOUNT", &ks, "1", "("]),
                _ => (7, Some(5), vec!["RENAME", &k2s, &ks]),
            };
            let _ = v;
            let mut steps = set_kind(&k, kind);
            if let Some(k2kind) = kind2 {
                steps.extend(set_kind(&k2, k2kind));
            }
            match ttl {
                1 => steps.push(Step::Cmd(vec![b("PEXPIRE"), k.clone(), b("500")])),
                2 => steps.push(Step::Cmd(vec![b("EXPIRE"), k2.clone(), b("100")])),
                _ => {}
            }
            (steps, av(&cmd))
        })
        .boxed()
}

pub(crate) fn final_command() -> BoxedStrategy<Final> {
    prop_oneof![
        8 => any_command().prop_map(Final::Direct),
        1 => (0u8..SCRIPTS.len() as u8, any::<u16>(), any_command()).prop_map(|(shape, k, inner)| {
            Final::Script { shape, key: pool_key(k), inner }
        }),
        // scripts weighted towards the shapes that forward the generated call
        1 => (0u8..5, any::<u16>(), targeted()).prop_map(|(shape, k, inner)| {
            Final::Script { shape, key: pool_key(k), inner }
        }),
    ]
    .boxed()
}

// ---------------------------------------------------------------------------------------
// oracle
// ---------------------------------------------------------------------------------------

pub(crate) fn diff_dumps(before: &Dump, after: &Dump) -> String {
    let mut s = String::new();
    for (k, v) in before {
        match after.get(k) {
            None => s.push_str(&format!(
                "    key {:?} [{}] {} pttl={} DISAPPEARED\n",
                vcore::show(k),
                v.ty,
                v.value.show(),
                v.pttl
            )),
            Some(w) if w != v => s.push_str(&format!(
                "    key {:?}: [{}] {} pttl={}  ->  [{}] {} pttl={}\n",
                vcore::show(k),
                v.ty,
                v.value.show(),
                v.pttl,
                w.ty,
                w.value.show(),
                w.pttl
            )),
            _ => {}
        }
    }
    for (k, w) in after {
        if !before.contains_key(k) {
            s.push_str(&format!(
                "    key {:?} APPEARED as [{}] {} pttl={}\n",
                vcore::show(k),
                w.ty,
                w.value.show(),
                w.pttl
            ));
        }
    }
    s
}

/// KF-C17-01: RPOPLPUSH / LMOVE pop the source before looking at the destination's type.
/// Exactly this discrepancy: the command is RPOPLPUSH/LMOVE with src != dst, the reply is
/// WRONGTYPE, before the command src held a list and dst held a non-list, and afterwards the
/// only difference is that src lost the element at the popped end (or vanished if it had one).
fn is_known_pop_before_type_check(inner: &Argv, reply: &Reply, before: &Dump, after: &Dump) -> bool {
    let name = cmd_name(inner);
    let from_left = match (name.as_str(), inner.len()) {
        ("RPOPLPUSH", 3) => false,
        ("LMOVE", 5) => {
            let wf = String::from_utf8_lossy(&inner[3]).to_uppercase();
            let wt = String::from_utf8_lossy(&inner[4]).to_uppercase();
            if !(wf == "LEFT" || wf == "RIGHT") || !(wt == "LEFT" || wt == "RIGHT") {
                return false;
            }
            wf == "LEFT"
        }
        _ => return false,
    };
    if !reply.error_text().map(|t| t.contains("WRONGTYPE")).unwrap_or(false) {
        return false;
    }
    let (src, dst) = (&inner[1], &inner[2]);
    if src == dst {
        return false;
    }
    let (Some(s), Some(d)) = (before.get(src), before.get(dst)) else {
        return false;
    };
    if s.ty != "list" || d.ty == "list" {
        return false;
    }
    let Reply::Array(items) = &s.value else {
        return false;
    };
    let mut expected = before.clone();
    if items.len() <= 1 {
        expected.remove(src);
    } else {
        let mut v = items.clone();
        if from_left {
            v.remove(0);
        } else {
            v.pop();
        }
        expected.get_mut(src).unwrap().value = Reply::Array(v);
    }
    expected == *after
}


/// Labels shared by all tiers (`pre` distinguishes the tier in the evidence).
pub(crate) fn label_reply(ctx: &mut CaseCtx<'_>, pre: &str, cmd: &Command, reply: &Reply, script: bool) {
    if cmd.is_read_only() {
        ctx.label(&format!("{}read_only", pre));
    }
    if reply.is_error() {
        ctx.label(&format!("{}error:{}", pre, reply.error_code().unwrap_or_default()));
        let t = reply.error_text().unwrap_or_default();
        for (needle, class) in [
            ("would overflow", "why:int_overflow"),
            ("NaN or Infinity", "why:float_overflow"),
            ("hash value is not an integer", "why:hash_not_int"),
            ("not an integer or out of range", "why:not_int"),
            ("not a valid float", "why:not_float"),
            ("index out of range", "why:index_range"),
            ("no such key", "why:no_such_key"),
            ("invalid expire time", "why:expire_time"),
            ("maximum allowed size", "why:string_size"),
            ("bit offset", "why:bit_offset"),
            ("min or max", "why:score_bound"),
            ("without MULTI", "why:no_multi"),
            ("NOSCRIPT", "why:noscript"),
            ("value is out of range", "why:decrby_min"),
        ] {
            if t.contains(needle) {
                ctx.label(&format!("{}{}", pre, class));
            }
        }
        if t.contains("WRONGTYPE") && cmd.get_keys().len() >= 2 {
            ctx.label(&format!("{}why:wrongtype_two_key", pre));
        }
    }
    if script {
        ctx.label(&format!("{}script", pre));
    }
}

/// The non-trivial rule shared by all tiers: the oracle applies and the command fails for a
/// reason other than arity / unknown command, or names >= 2 keys, or has >= 4 elements.
pub(crate) fn nontrivial_kind(cmd: &Command, inner: &Argv, reply: &Reply) -> Option<String> {
    let text = reply.error_text().unwrap_or_default();
    let arity_like = text.contains("wrong number of arguments")
        || text.contains("unknown command")
        || text.contains("Unknown Redis command");
    if (reply.is_error() && !arity_like) || cmd.get_keys().len() >= 2 || inner.len() >= 4 {
        Some(text.chars().take(48).collect())
    } else {
        None
    }
}

fn check(case: &Case, ctx: &mut CaseCtx<'_>) -> Result<(), String> {
    let argv = case.fin.argv();
    let inner = case.fin.inner().clone();
    let name = cmd_name(&inner);
    let cmd = match catch(|| parse_zc(&argv)) {
        Ok(Ok(c)) => c,
        Ok(Err(_)) => {
            // rejected by the parser: the executor is never reached
            ctx.label("parse_error");
            return Ok(());
        }
        Err(_) => {
            // parser panics are C16's subject
            ctx.label("parse_panic");
            return Ok(());
        }
    };

    let mut extra: Vec<Vec<u8>> = pool_keys();
    extra.extend(cmd.get_keys().into_iter().map(|k| k.into_bytes()));
    extra.extend(inner.iter().skip(1).filter(|a| a.len() <= 80).cloned());

    let mut a = World::build(&case.steps);
    let before = a.dump(&extra);
    let raw_before = a.raw();

    let reply = match catch(|| Reply::from_resp(&a.ex.execute(&cmd))) {
        Ok(r) => r,
        Err(_) => {
            // a panicking command is not an error *reply*; C01 owns executor panics
            ctx.label("executor_panic");
            ctx.abstain();
            return Ok(());
        }
    };
    if matches!(cmd, Command::Multi) && !reply.is_error() {
        // leave the transaction again so that the dump's read commands are executed
        let _ = a.exec(&av(&["DISCARD"]));
    }
    let after = a.dump(&extra);
    let raw_after = a.raw();

    let ro = cmd.is_read_only();
    let failed = reply.is_error();
    label_reply(ctx, "", &cmd, &reply, matches!(case.fin, Final::Script { .. }));
    if !ro && !failed {
        ctx.label("effectful_ok");
        return Ok(());
    }
    if failed && case.fin.effect_first() {
        // the script changed the keyspace *before* its failing call: no rollback in Redis
        ctx.label("script_effect_then_failure");
        ctx.abstain();
        return Ok(());
    }

    // non-trivial: fails for a reason other than arity / unknown command, or names >= 2 keys
    // or elements
    if let Some(t) = nontrivial_kind(&cmd, &inner, &reply) {
        let types: Vec<String> = inner
            .iter()
            .skip(1)
            .take(3)
            .map(|k| before.get(k).map(|d| d.ty.clone()).unwrap_or_else(|| "-".into()))
            .collect();
        ctx.nontrivial(&(name.clone(), matches!(case.fin, Final::Script { .. }), t, types));
    }

    let what = if failed {
        format!("replied with the error {}", reply.show())
    } else {
        format!("is classified read-only (reply {})", reply.show())
    };

    if before != after {
        if is_known_pop_before_type_check(&inner, &reply, &before, &after) && ctx.tolerate("KF-C17-01") {
            return Ok(());
        }
        return Err(format!(
            "{} {} but the visible keyspace changed:\n{}  before:\n{}  after:\n{}",
            show_argv(&argv),
            what,
            diff_dumps(&before, &after),
            show_dump(&before),
            show_dump(&after)
        ));
    }
    if raw_before != raw_after {
        return Err(format!(
            "{} {} and the dump through read commands is unchanged, but get_data() (unexpired keys) changed:\n  before:\n{}  after:\n{}",
            show_argv(&argv),
            what,
            show_raw(&raw_before),
            show_raw(&raw_after)
        ));
    }

    // twin executor: same state, command never executed. Everything observable must agree,
    // including expiry entries left behind on absent keys (destructive probe, done last).
    let mut t = World::build(&case.steps);
    let twin_dump = t.dump(&extra);
    let twin_raw = t.raw();
    if twin_dump != after || twin_raw != raw_after {
        return Err(format!(
            "{} {} but the executor differs from a twin that never executed it:\n{}  twin:\n{}  executor:\n{}",
            show_argv(&argv),
            what,
            diff_dumps(&twin_dump, &after),
            show_dump(&twin_dump),
            show_dump(&after)
        ));
    }
    let pa = a.orphan_probe(&extra);
    let pt = t.orphan_probe(&extra);
    if pa != pt {
        let d: Vec<String> = pa
            .iter()
            .filter(|(k, v)| pt.get(*k) != Some(*v))
            .map(|(k, v)| format!("{:?}: pttl {} (twin {:?})", vcore::show(k), v, pt.get(k)))
            .collect();
        return Err(format!(
            "{} {} but it left expiry state behind on absent keys (a key created afterwards inherits a deadline): {}",
            show_argv(&argv),
            what,
            d.join(", ")
        ));
    }
    Ok(())
}

fn rss() -> String {
    std::fs::read_to_string("/proc/self/status")
        .unwrap_or_default()
        .lines()
        .filter(|l| l.starts_with("VmRSS") || l.starts_with("VmHWM"))
        .collect::<Vec<_>>()
        .join(" ")
}

// base sizes (the quick tier is multiplied by the work factor of tools/scale.sh, 800 %)
const SHARDED_QUICK: u32 = 6_000;
const SHARDED_THOROUGH: u32 = 400_000;
const REPL_QUICK: u32 = 4_000;
const REPL_THOROUGH: u32 = 300_000;

fn main() {
    let args = vcore::parse_args();
    let s = Session::new(
        "C17",
        Level::Exploration,
        "case = (state steps, one command). State: typed seeds (string int/i64::MAX/i64::MIN/1.5e308/text/empty, list 3/1, set 3/1, hash with int, non-int, i64::MAX, i64::MIN fields, zset 3/1) on a 10-key pool with optional TTLs, stirred by vcore::gen::data_command and eager/lazy clock moves. \
         Command: 60 % targeted failure forms over the full Command set (limits of INCR*/HINCRBY/INCRBYFLOAT, indices, offsets, option conflicts, multi-element with one bad element, two-key commands, SORT STORE, stubs, admin, transactions), 35 % vcore data commands, 5 % mutated arity; 20 % of all wrapped in EVAL scripts (redis.call / redis.pcall / read-then-call / effect-then-call / script-level errors). \
         non-trivial = the oracle applies (error reply or is_read_only) and the command fails for a reason other than arity/unknown command or names >= 2 keys/elements; distinct by (command name, via script, error text, types of the first three named keys)",
        &args,
    );
    s.assume("the snapshot is taken with KEYS *, TYPE, GET/LRANGE/SMEMBERS/HGETALL/ZRANGE WITHSCORES and PTTL at a held clock; those read commands are validated by C01");
    s.assume("keys already expired at the held clock are invisible: their lazy removal is not a change");
    s.assume("a script whose own earlier redis.call changed the keyspace before a later call failed is not a violation (Redis has no rollback); such cases abstain");
    s.assume("a command rejected by the parser never reaches the executor; a panicking command is not an error reply (C01/C16 own those)");

    s.probe(
        "KF-C17-01",
        json!({"steps": [["RPUSH", "src", "a", "b"], ["SET", "dst", "x"]], "command": ["RPOPLPUSH", "src", "dst"], "also": ["LMOVE", "src", "dst", "LEFT", "RIGHT"]}),
        || {
            for fin in [
                av(&["RPOPLPUSH", "k0", "k1"]),
                av(&["LMOVE", "k0", "k1", "LEFT", "RIGHT"]),
            ] {
                let case = Case {
                    steps: vec![
                        Step::Cmd(av(&["RPUSH", "k0", "a", "b"])),
                        Step::Cmd(av(&["SET", "k1", "x"])),
                    ],
                    fin: Final::Direct(fin),
                };
                if let Err(e) = s.strict_eval(|ctx| check(&case, ctx)) {
                    return Some(e);
                }
            }
            None
        },
    );

    // development aid (never set by ./check or the manifest): C17_ONLY=<sub-check> runs only that one
    let only = std::env::var("C17_ONLY").ok();
    let want = |name: &str| only.as_deref().map(|o| o == name).unwrap_or(true);

    if want("fail_or_ro") {
    s.run_cases(
        "fail_or_ro",
        s.scale(150_000, 6_000_000),
        || {
            prop_oneof![
                4 => (state_steps(6, 8), final_command()).prop_map(|(steps, fin)| Case { steps, fin }),
                // state, then a last-moment setup aimed at one failure (direct or via script)
                1 => (state_steps(4, 6), aimed(), 0u8..8, any::<u16>()).prop_map(|(mut steps, (extra, cmd), wrap, k)| {
                    steps.extend(extra);
                    let fin = if wrap < 4 {
                        Final::Script { shape: wrap, key: pool_key(k), inner: cmd }
                    } else {
                        Final::Direct(cmd)
                    };
                    Case { steps, fin }
                }),
            ]
        },
        check,
    );
    }

    // the same oracle through the production entry points above the bare executor
    s.describe_check(
        "sharded_entry",
        "case = (shard count 1/2/3/4/5/7/8/16, key suffix 0..3 (placement), state steps, one command) on ShardedActorState<VerifTime>::execute; state and command from the generators of fail_or_ro (40 % aimed setups, the two-key failures among them). \
         Observation through the same entry point before/after at a held clock: KEYS * as a sorted multiset, DBSIZE, per key TYPE / full value / PTTL. error reply or is_read_only() => equal. \
         non-trivial = as fail_or_ro; distinct additionally by (shard count, the command's keys live on different shards)",
    );
    if want("sharded_entry") {
        s.run_cases("sharded_entry", s.scale(SHARDED_QUICK, SHARDED_THOROUGH), entry::sharded_case, entry::check_sharded);
    }
    s.describe_check(
        "replicated_wal",
        "case = (WAL plan, key suffix, state steps, one command) on ReplicatedShardedState<VerifTime>::execute (16 shards). WAL plan: no WAL / Always (2 in 3) / EverySecond / No, group size 1/2/8, file size 64/200/1 MiB (rotation), \
         a WalStore whose create/append/fsync calls fail at generated call indices, from a generated call on, or exactly around the command under test (create+append / fsync / both); delta sink absent / live / receiver gone; gossip queue on/off. \
         Half of the commands are plain writes of the forwarded kinds (SET, INCR*, APPEND, GETSET, HSET, HDEL, HINCRBY, DEL, MSET), half from the general generator. Same observation and oracle as sharded_entry. \
         non-trivial = as fail_or_ro; distinct additionally by (policy, sink, a WAL call was refused during the command)",
    );
    if want("replicated_wal") {
        s.run_cases("replicated_wal", s.scale(REPL_QUICK, REPL_THOROUGH), entry::repl_case, entry::check_repl);
    }

    // not scaled by the work factor: a fixed handful of large-value cases, run one at a time
    s.describe_check(
        "big_values",
        "enumerated: key holding ONE large element (1 MiB, 16 MiB, 32 MiB+, 64 MiB-, 64 MiB+, 72 MiB, 130 MiB) as string value / list element / set member / hash value, \
         x every data-returning write command (SET..GET, GETSET, GETDEL, GETEX, LPOP, RPOP, RPOPLPUSH, LMOVE, SPOP) and every large-reply read command, directly and through one-call redis.call / redis.pcall scripts; \
         large arguments (SET/APPEND/LPUSH/SADD/HSET/ZADD of 64 MiB+), APPEND past 512 MiB, SETRANGE/SETBIT around the 512 MiB limit. Snapshot = type, per-element (length, sampled checksum), PTTL from get_data(). \
         non-trivial = error reply or read-only classification; distinct by (holder, size, command, path)",
    );
    // give the generated check's arena memory back before the large allocations start
    unsafe {
        libc::malloc_trim(0);
    }
    if std::env::var("C17_RSS").is_ok() {
        eprintln!("before big_values: {}", rss());
    }
    if want("big_values") {
        s.run_enumerated("big_values", big::big_cases().into_iter(), big::check_big);
    }
    if std::env::var("C17_RSS").is_ok() {
        eprintln!("after big_values: {}", rss());
    }

    s.finish();
}
