//! Failure-biased command forms over the full `Command` set (shared by C17 and C16; c16
//! includes this file with #[path]).

use proptest::prelude::*;
use proptest::strategy::BoxedStrategy;
use vcore::gen::{GenOpts, MEMBER_POOL};
use vcore::resp::Argv;

fn b(s: &str) -> Vec<u8> {
    s.as_bytes().to_vec()
}

fn pool_key(i: u16) -> Vec<u8> {
    vcore::gen::KEY_POOL[(i as usize * NKEYS) >> 16].to_vec()
}

/// size of the key pool the forms draw from (same as state::NKEYS)
pub const NKEYS: usize = 10;

#[derive(Clone)]
pub enum P {
    L(&'static str),
    K,
    V,
    M,
    O(&'static [&'static str]),
}
use P::*;

pub fn form(parts: Vec<P>) -> BoxedStrategy<Argv> {
    let n = parts.len();
    (
        proptest::collection::vec(any::<u16>(), n),
        proptest::collection::vec(vcore::gen::value(), n),
    )
        .prop_map(move |(sel, vals)| {
            parts
                .iter()
                .enumerate()
                .map(|(i, p)| match p {
                    L(s) => b(s),
                    K => pool_key(sel[i]),
                    V => vals[i].clone(),
                    M => MEMBER_POOL[(sel[i] as usize * MEMBER_POOL.len()) >> 16].to_vec(),
                    O(list) => b(list[(sel[i] as usize * list.len()) >> 16]),
                })
                .collect()
        })
        .boxed()
}

const BIG: &[&str] = &[
    "9223372036854775807",
    "-9223372036854775808",
    "1",
    "-1",
    "9223372036854775806",
    "0",
];
const FLOATS: &[&str] = &["1.5e308", "-1.5e308", "inf", "-inf", "nan", "1e400", "0.5", "abc", ""];
const TTLS: &[&str] = &[
    "0",
    "-1",
    "10",
    "9223372036854775807",
    "-9223372036854775808",
    "9223372036854775",
    "9223372036854776",
    "9223372036854775000",
];
const IDX: &[&str] = &["0", "-1", "1", "2", "3", "100", "-100", "9223372036854775807", "-9223372036854775808"];
// (offsets that would make the server allocate 512 MB per case are left out: 16 workers)
const OFFS: &[&str] = &["0", "5", "1000", "536870913", "4294967296", "-1", "18446744073709551615"];
const BITS: &[&str] = &["0", "1", "2"];
const SIDE: &[&str] = &["LEFT", "RIGHT"];
const BOUNDS: &[&str] = &["-inf", "+inf", "0", "(1", "2", "abc", "", "(", "nan", "[1"];
const SCORES: &[&str] = &["1", "2.5", "-3", "inf", "nan", "abc", "", "1e400", "0"];
const ZFLAGS: &[&str] = &["NX", "XX", "GT", "LT", "CH"];
const EFLAGS: &[&str] = &["NX", "XX", "GT", "LT"];
const COUNTS: &[&str] = &["0", "1", "2", "-1", "abc", "100"];
const PATS: &[&str] = &["*", "k*", "k[0-2]", "nomatch", "[", "k[^0]"];

pub fn targeted() -> BoxedStrategy<Argv> {
    let mut f: Vec<(u32, BoxedStrategy<Argv>)> = Vec::new();
    let mut add = |w: u32, parts: Vec<P>| f.push((w, form(parts)));
    // ---- integer / float arithmetic at the limits
    add(3, vec![L("INCR"), K]);
    add(3, vec![L("DECR"), K]);
    add(4, vec![L("INCRBY"), K, O(BIG)]);
    add(4, vec![L("DECRBY"), K, O(BIG)]);
    add(4, vec![L("INCRBYFLOAT"), K, O(FLOATS)]);
    add(5, vec![L("HINCRBY"), K, M, O(BIG)]);
    // ---- strings
    add(2, vec![L("APPEND"), K, V]);
    add(3, vec![L("SETRANGE"), K, O(OFFS), V]);
    add(3, vec![L("SETBIT"), K, O(OFFS), O(BITS)]);
    add(1, vec![L("GETBIT"), K, O(OFFS)]);
    add(1, vec![L("GETRANGE"), K, O(IDX), O(IDX)]);
    add(1, vec![L("SUBSTR"), K, O(IDX), O(IDX)]);
    add(2, vec![L("SET"), K, V, O(&["EX", "PX", "EXAT", "PXAT"]), O(TTLS)]);
    add(1, vec![L("SET"), K, V, L("NX"), L("XX")]);
    add(1, vec![L("SET"), K, V, L("KEEPTTL"), L("EX"), L("5")]);
    add(2, vec![L("SET"), K, V, L("GET")]);
    add(1, vec![L("SET"), K, V, L("GET"), O(&["EX", "PX"]), O(TTLS)]);
    add(2, vec![O(&["SETEX", "PSETEX"]), K, O(TTLS), V]);
    add(2, vec![L("GETEX"), K, O(&["EX", "PX", "EXAT", "PXAT"]), O(TTLS)]);
    add(1, vec![L("GETEX"), K, L("PERSIST"), L("EX"), L("5")]);
    add(1, vec![L("GETEX"), K, L("PERSIST")]);
    add(1, vec![L("GETDEL"), K]);
    add(1, vec![L("GETSET"), K, V]);
    add(1, vec![L("SETNX"), K, V]);
    add(1, vec![L("GET"), K]);
    add(1, vec![L("STRLEN"), K]);
    // ---- expiry
    add(3, vec![O(&["EXPIRE", "PEXPIRE"]), K, O(TTLS)]);
    add(2, vec![O(&["EXPIRE", "PEXPIRE"]), K, O(TTLS), O(EFLAGS)]);
    add(1, vec![O(&["EXPIRE", "PEXPIRE"]), K, O(TTLS), O(EFLAGS), O(EFLAGS)]);
    add(2, vec![O(&["EXPIREAT", "PEXPIREAT"]), K, O(TTLS)]);
    add(1, vec![O(&["PERSIST", "TTL", "PTTL", "EXPIRETIME", "PEXPIRETIME", "TYPE"]), K]);
    // ---- lists
    add(3, vec![O(&["LPUSH", "RPUSH"]), K, V, V, V]);
    add(2, vec![O(&["LPOP", "RPOP", "LLEN"]), K]);
    add(4, vec![L("LSET"), K, O(IDX), V]);
    add(1, vec![L("LINDEX"), K, O(IDX)]);
    add(1, vec![L("LRANGE"), K, O(IDX), O(IDX)]);
    add(2, vec![L("LTRIM"), K, O(IDX), O(IDX)]);
    // ---- two-key commands
    add(8, vec![L("RPOPLPUSH"), K, K]);
    add(8, vec![L("LMOVE"), K, K, O(SIDE), O(SIDE)]);
    add(1, vec![L("LMOVE"), K, K, L("UP"), O(SIDE)]);
    add(4, vec![O(&["RENAME", "RENAMENX"]), K, K]);
    add(3, vec![L("SORT"), K, L("STORE"), K]);
    add(2, vec![L("SORT"), K]);
    add(1, vec![L("SORT"), K, L("ALPHA"), L("STORE"), K]);
    // ---- sets
    add(3, vec![O(&["SADD", "SREM"]), K, M, M, M]);
    add(2, vec![L("SPOP"), K, O(COUNTS)]);
    add(1, vec![L("SPOP"), K]);
    add(1, vec![O(&["SMEMBERS", "SCARD"]), K]);
    add(1, vec![L("SISMEMBER"), K, M]);
    // ---- hashes
    add(3, vec![L("HSET"), K, M, V, M, V]);
    add(1, vec![L("HSET"), K, M, V, M]);
    add(2, vec![L("HDEL"), K, M, M]);
    add(1, vec![O(&["HGETALL", "HKEYS", "HVALS", "HLEN"]), K]);
    add(1, vec![O(&["HGET", "HEXISTS"]), K, M]);
    // ---- sorted sets (exactly one pair may be at fault)
    add(3, vec![L("ZADD"), K, O(SCORES), M, O(SCORES), M, O(SCORES), M]);
    add(2, vec![L("ZADD"), K, O(ZFLAGS), O(SCORES), M, O(SCORES), M]);
    add(2, vec![L("ZADD"), K, O(ZFLAGS), O(ZFLAGS), O(SCORES), M]);
    add(1, vec![L("ZADD"), K, L("1"), M, L("2")]);
    add(2, vec![L("ZREM"), K, M, M]);
    add(1, vec![O(&["ZRANGE", "ZREVRANGE"]), K, O(IDX), O(IDX), L("WITHSCORES")]);
    add(1, vec![O(&["ZSCORE", "ZRANK"]), K, M]);
    add(1, vec![L("ZCARD"), K]);
    add(2, vec![L("ZCOUNT"), K, O(BOUNDS), O(BOUNDS)]);
    add(2, vec![L("ZRANGEBYSCORE"), K, O(BOUNDS), O(BOUNDS), L("LIMIT"), O(COUNTS), O(COUNTS)]);
    add(1, vec![L("ZRANGEBYSCORE"), K, O(BOUNDS), O(BOUNDS), L("WITHSCORES")]);
    // ---- multi-key
    add(2, vec![O(&["MSET", "MSETNX"]), K, V, K, V, K, V]);
    add(1, vec![O(&["MSET", "MSETNX"]), K, V, K]);
    add(1, vec![L("MGET"), K, K, K]);
    add(2, vec![O(&["DEL", "UNLINK", "EXISTS"]), K, K, K]);
    // ---- keyspace
    add(1, vec![L("KEYS"), O(PATS)]);
    add(1, vec![L("SCAN"), L("0"), L("MATCH"), O(PATS), L("COUNT"), O(&["1", "3", "100"])]);
    add(1, vec![L("SCAN"), O(&["0", "1", "5", "abc", "-1"])]);
    add(1, vec![O(&["HSCAN", "ZSCAN"]), K, L("0"), L("MATCH"), O(PATS)]);
    add(1, vec![O(&["HSCAN", "ZSCAN"]), K, O(&["0", "3", "abc"])]);
    add(1, vec![O(&["RANDOMKEY", "DBSIZE", "INFO", "TIME", "PING", "COMMAND"])]);
    // ---- stubs, admin, transactions, scripts by hash
    add(1, vec![O(&["PING", "ECHO"]), V]);
    add(1, vec![L("WAIT"), O(&["0", "1", "abc"]), O(&["0", "10"])]);
    add(1, vec![L("SELECT"), O(&["0", "15", "16", "-1", "abc"])]);
    add(1, vec![L("CONFIG"), L("GET"), O(&["*", "maxmemory", "nosuch"])]);
    add(1, vec![L("CONFIG"), L("SET"), O(&["maxmemory", "nosuch", "appendonly"]), O(&["0", "yes", "abc"])]);
    add(1, vec![L("CONFIG"), O(&["RESETSTAT", "REWRITE", "FOO"])]);
    add(1, vec![L("COMMAND"), O(&["COUNT", "DOCS", "INFO"])]);
    add(1, vec![L("FUNCTION"), O(&["FLUSH", "LIST", "STATS"])]);
    add(1, vec![L("CLIENT"), O(&["GETNAME", "ID", "INFO", "LIST", "FOO"])]);
    add(1, vec![L("CLIENT"), L("SETNAME"), V]);
    add(2, vec![L("OBJECT"), O(&["ENCODING", "REFCOUNT", "IDLETIME", "FREQ", "FOO"]), K]);
    add(1, vec![L("OBJECT"), L("HELP")]);
    add(2, vec![L("DEBUG"), O(&["OBJECT", "JMAP", "RELOAD", "FOO", "SET-ACTIVE-EXPIRE"]), K]);
    add(1, vec![L("DEBUG"), L("SLEEP"), L("0")]);
    add(1, vec![L("AUTH"), V]);
    add(1, vec![L("AUTH"), L("default"), V]);
    add(1, vec![L("ACL"), O(&["WHOAMI", "LIST", "USERS", "CAT", "GENPASS", "LOG", "HELP", "SAVE", "FOO"])]);
    add(1, vec![L("ACL"), O(&["GETUSER", "SETUSER", "DELUSER", "CAT", "GENPASS", "LOG"]), O(&["default", "string", "64", "RESET", "x"])]);
    add(1, vec![L("ACL"), L("DRYRUN"), L("default"), L("SET"), K, V]);
    add(1, vec![O(&["MULTI", "EXEC", "DISCARD", "UNWATCH"])]);
    add(1, vec![L("WATCH"), K, K]);
    add(1, vec![L("SCRIPT"), O(&["FLUSH", "FOO"])]);
    add(1, vec![L("SCRIPT"), O(&["LOAD", "EXISTS"]), O(&["return 1", "abc", "return ("])]);
    add(1, vec![L("EVALSHA"), L("da39a3ee5e6b4b0d3255bfef95601890afd80709"), L("1"), K]);
    add(1, vec![L("EVAL"), L("return redis.call('GET', KEYS[1])"), L("1"), K]);
    add(1, vec![O(&["XADD", "XINFO", "XLEN", "NOSUCHCOMMAND", "BLPOP", "SUNIONSTORE"]), K, V]);
    proptest::strategy::Union::new_weighted(f).boxed()
}

/// a data command with one argument dropped, duplicated or replaced (mostly parse errors)
pub fn mutated(o: &GenOpts) -> BoxedStrategy<Argv> {
    (vcore::gen::data_command(o), 0u8..4, any::<u16>(), vcore::gen::value())
        .prop_map(|(mut a, kind, pos, v)| {
            let at = ((pos as usize * a.len()) >> 16).min(a.len() - 1);
            match kind {
                0 if a.len() > 1 => {
                    a.remove(at.max(1));
                }
                1 => {
                    let x = a[at].clone();
                    a.insert(at + 1, x);
                }
                2 if at >= 1 => a[at] = v,
                _ => a.push(v),
            }
            a
        })
        .boxed()
}

